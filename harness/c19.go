package main

// C19 — issuer validation and derivation: implementation vs. an independent reference (RFC 3986 component
// splitter, RFC 7239 Forwarded reading) and vs. the generated ValidateIssuer / dynamicIssuer.

import (
	"fmt"
	"net/url"
	"reflect"
	"sort"
	"strings"
	"unicode/utf8"

	"github.com/zitadel/saml/pkg/provider"
)

func init() { props["C19"] = runC19 }

// refSplit splits a URI reference into scheme / authority / rest following RFC 3986 appendix B, without net/url.
func refSplit(s string) (scheme, authority string, hasAuthority bool, rest string) {
	i := strings.IndexAny(s, ":/?#")
	if i > 0 && s[i] == ':' {
		ok := (s[0] >= 'a' && s[0] <= 'z') || (s[0] >= 'A' && s[0] <= 'Z')
		for _, ch := range s[1:i] {
			if !(ch >= 'a' && ch <= 'z' || ch >= 'A' && ch <= 'Z' || ch >= '0' && ch <= '9' || ch == '+' || ch == '-' || ch == '.') {
				ok = false
			}
		}
		if ok {
			scheme = s[:i]
			s = s[i+1:]
		}
	}
	if strings.HasPrefix(s, "//") {
		hasAuthority = true
		s = s[2:]
		j := strings.IndexAny(s, "/?#")
		if j < 0 {
			authority, s = s, ""
		} else {
			authority, s = s[:j], s[j:]
		}
	}
	return scheme, authority, hasAuthority, s
}

// refIssuerOK: an absolute URL with a host, no query, no fragment, scheme https (http only in insecure mode).
func refIssuerOK(issuer string, insecure bool) bool {
	if issuer == "" || strings.ContainsAny(issuer, "?#") {
		return false
	}
	scheme, authority, hasAuth, _ := refSplit(issuer)
	if !hasAuth {
		return false
	}
	host := authority
	if k := strings.LastIndex(host, "@"); k >= 0 {
		host = host[k+1:]
	}
	if host == "" || strings.HasPrefix(host, ":") {
		return false
	}
	switch strings.ToLower(scheme) {
	case "https":
		return true
	case "http":
		return insecure
	}
	return false
}

var c19Issuers = []string{
	"https://idp.example.com", "https://idp.example.com/", "https://idp.example.com/saml", "https://idp.example.com/saml/", "https://idp.example.com:8443/a/b",
	"http://idp.example.com/saml", "HTTP://idp.example.com/saml", "HTTPS://IDP.example.com/saml", "hTTps://idp.example.com", "ftp://idp.example.com/saml", "ws://idp.example.com",
	"https://user:pw@idp.example.com/saml", "https://user@idp.example.com", "https://[::1]/saml", "https://[2001:db8::1]:8443/saml", "http://[::1]:8080",
	"https:///saml", "https://", "https:", "https:idp.example.com/saml", "https:/idp.example.com", "//idp.example.com/saml", "idp.example.com/saml", "/saml", "saml", "", " ",
	"https://idp.example.com/saml?", "https://idp.example.com/saml?&", "https://idp.example.com/saml?a;b", "https://idp.example.com/saml?x=1", "https://idp.example.com?x",
	"https://idp.example.com/saml#", "https://idp.example.com/saml#frag", "https://idp.example.com#", "https://idp.example.com/saml?#", "https://idp.example.com/sa%3Fml", "https://idp.example.com/sa%23ml",
	"https://idp.example.com/sa ml", "https://idp.exa mple.com/saml", "https://idp.example.com/saml\n", "https://idp.example.com/\x00", "https://idp.example.com/%zz", "https://idp.example.com:port/saml", "https://idp.example.com:/saml",
	"https://@/saml", "https://:443/saml", "https://idp.example.com/ünïcode", "https://ümlaut.example.com/saml", "javascript://idp.example.com/%0aalert(1)", "https://idp.example.com/saml;param", "https://idp.example.com/a//b/../c",
	"http://localhost:8080", "http://127.0.0.1", "https://localhost", "mailto:idp@example.com", "urn:idp:example", "https://idp.example.com/saml?" + strings.Repeat("a", 10),
}

func urlRecTokens(u *url.URL) []string {
	// UrlRec: Scheme, Host, Fragment, RawQuery, ForceQuery, queryKeys
	keys := []string{}
	for k := range u.Query() {
		keys = append(keys, k)
	}
	t := []string{tokStr(u.Scheme), tokStr(u.Host), tokStr(u.Fragment), tokStr(u.RawQuery), tokBool(u.ForceQuery), tokStr(u.Hostname()), fmt.Sprint(len(keys))}
	for _, k := range keys {
		t = append(t, tokStr(k))
	}
	return t
}

func runC19(c *Ctx) {
	c.rep.Rule = "issuer strings (schemes in any case, userinfo, ports, IPv6 literals, empty hosts, opaque URLs, control characters, query/fragment variants incl. bare ? and #) x insecure {on, off} through ValidateIssuer and NewProvider(StaticIssuer), against an independent RFC 3986 splitter and against the generated ValidateIssuer; host/Forwarded/custom-header values x path configurations through the served metadata. Non-trivial = the string parses as a URL; distinct = (issuer, insecure) or (config, headers)."
	b := &batch{c: c, site: "fn ValidateIssuer"}
	issuers := append([]string{}, c19Issuers...)
	// random mutations of valid issuers
	n := 400
	if c.thorough() {
		n = 20000
	}
	alphabet := []string{"?", "#", "/", ":", "@", "%", " ", "[", "]", "h", "t", "p", "s", ".", "a", "\t", "\\", "%3F", "é"}
	for i := 0; i < n; i++ {
		base := []string{"https://idp.example.com/saml", "http://idp.example.com", "https://a.b/c/d"}[c.rng.intn(3)]
		for e := 0; e < 1+c.rng.intn(3); e++ {
			pos := c.rng.intn(len(base) + 1)
			switch c.rng.intn(3) {
			case 0:
				base = base[:pos] + c.rng.pick(alphabet) + base[pos:]
			case 1:
				if pos < len(base) {
					base = base[:pos] + base[pos+1:]
				}
			case 2:
				base = base[:pos] + c.rng.pick(alphabet)
			}
		}
		if isValidUTF8([]byte(base)) {
			issuers = append(issuers, base)
		}
	}
	st := newStorage()
	for _, iss := range issuers {
		for _, insecure := range []bool{false, true} {
			c.rep.Evaluations++
			err := provider.ValidateIssuer(iss, insecure)
			accepted := err == nil
			// the same decision through provider construction
			cfg := defaultIdpCfg()
			cfg.Issuer, cfg.Insecure = iss, insecure
			_, perr := newProvider(st, cfg)
			if iss != "" && (perr == nil) != accepted {
				c.issue(Issue{Kind: "violation", What: "NewProvider(StaticIssuer) and ValidateIssuer disagree", Site: "StaticIssuer", Class: "constructor-vs-validator", Detail: map[string]interface{}{"issuer": iss, "insecure": insecure}})
			}
			u, uerr := url.Parse(iss)
			if uerr == nil {
				c.nontrivial(fmt.Sprintf("%s|%v", iss, insecure))
			}
			ref := refIssuerOK(iss, insecure)
			c.hist("decision", fmt.Sprintf("impl=%v ref=%v", accepted, ref))
			if accepted && !ref {
				cls := "accepted-invalid"
				switch {
				case strings.Contains(iss, "?"):
					cls += ":query"
				case strings.Contains(iss, "#"):
					cls += ":fragment"
				}
				c.issue(Issue{Kind: "violation", What: "issuer accepted although it is not an absolute https URL with a host and without query/fragment", Site: "ValidateIssuer", Class: cls,
					Detail: map[string]interface{}{"issuer": iss, "insecure": insecure}})
			}
			if c.rep.Evaluations%97 == 1 {
				c.sample(map[string]interface{}{"issuer": iss, "insecure": insecure, "accepted": accepted})
			}
			// model: generated ValidateIssuer with url.Parse as oracle
			res := []string{"-"}
			if uerr == nil {
				res = append([]string{"+"}, urlRecTokens(u)...)
			}
			// the line protocol carries decision-logic strings as UTF-8 text (DESIGN appendix A): a URL record whose
			// percent-decoded host is not valid UTF-8 cannot be handed to the model; the implementation side is still
			// checked against the independent reference above
			recOK := utf8.ValidString(iss)
			if uerr == nil {
				recOK = recOK && utf8.ValidString(u.Scheme) && utf8.ValidString(u.Host) && utf8.ValidString(u.Fragment) && utf8.ValidString(u.RawQuery) && utf8.ValidString(u.Hostname())
				for k := range u.Query() {
					recOK = recOK && utf8.ValidString(k)
				}
			}
			if !recOK {
				c.hist("model", "skipped:non-utf8-url-record")
				continue
			}
			ora := Ora{"urlParse": tableTokens(res, nil)}
			line, e := fnLine("ValidateIssuer", ora, []string{tokStr(iss)}, []string{tokBool(insecure)})
			if e != nil {
				// the translation changed shape: no model side, but the implementation is still checked against the reference
				c.issue(Issue{Kind: "disagreement", What: e.Error(), Site: "fn ValidateIssuer"})
				continue
			}
			want := "ok -"
			if err != nil {
				want = "ok + " + tokStr(err.Error())
			}
			iss2, ins2 := iss, insecure
			b.add(line, want, func() map[string]interface{} { return map[string]interface{}{"issuer": iss2, "insecure": ins2} })
		}
	}
	b.flush()
	c19Dynamic(c)
	c19Factories(c)
}

// ---- host-derived issuers

type c19Hdr struct {
	name  string
	vals  []string
	first string // first host per RFC 7239 reading ("" = none / malformed: fall back to Host)
}

func c19Dynamic(c *Ctx) {
	dyn, ok := provider.VerifExports["dynamicIssuer"]
	b := &batch{c: c, site: "fn dynamicIssuer"}
	paths := []string{"", "/", "saml", "/saml", "/a/b", "a/b/"}
	// legal but unusual configured paths: the issuer appends them verbatim (no decoding, no re-interpretation)
	exotic := map[string]bool{"/tenants/acme%2Fprod": true, "idp%20one/saml": true, "/t/caf%C3%A9/saml": true, "//static.example.net/x": true, "/a/./b/../c": true, "/semi;colon/x": true}
	for p := range exotic {
		paths = append(paths, p)
	}
	sort.Strings(paths[6:])
	hosts := []string{"idp.example.com", "idp.example.com:8443", "[::1]:8080", "EXAMPLE.com"}
	hdrs := []c19Hdr{
		{"", nil, ""},
		{"Forwarded", []string{"host=fwd.example.com"}, "fwd.example.com"},
		{"Forwarded", []string{`for=192.0.2.60;proto=http;by=203.0.113.43;host="quoted.example.com:444"`}, "quoted.example.com:444"},
		{"Forwarded", []string{"for=192.0.2.43, for=198.51.100.17;host=second.example.com"}, "second.example.com"},
		{"Forwarded", []string{"host=first.example.com, host=second.example.com"}, "first.example.com"},
		{"Forwarded", []string{"for=1.2.3.4", "HOST=other.example.com"}, "other.example.com"},
		{"Forwarded", []string{"for=1.2.3.4;proto=https"}, ""},
		{"Forwarded", []string{"host"}, ""},
		{"Forwarded", []string{`host="unterminated`}, ""},
		{"X-Forwarded-Host", []string{"host=xfh.example.com"}, "-"}, // not a configured header: ignored
	}
	for _, path := range paths {
		for _, insecure := range []bool{false, true} {
			cfg := defaultIdpCfg()
			cfg.Issuer, cfg.IssuerPath, cfg.Insecure = "", path, insecure
			st := newStorage()
			prov, err := newProvider(st, cfg)
			if err != nil {
				if exotic[path] {
					c.hist("exotic-path", "refused:"+path)
					continue // refusing an unusual path at construction is within the property
				}
				c.issue(Issue{Kind: "violation", What: "host-derived issuer with a plain path could not be constructed: " + err.Error(), Site: "IssuerFromForwardedOrHost", Class: "constructor", Detail: map[string]interface{}{"path": path}})
				continue
			}
			for _, host := range hosts {
				for _, h := range hdrs {
					for _, target := range []string{"/metadata", "/metadata?x=https://evil.example.com/"} {
						c.rep.Evaluations++
						req := HTTPReq{Method: "GET", Path: "/metadata", Host: host, Headers: map[string]string{"X-Forwarded-Proto": "http", "X-Forwarded-Prefix": "/evil"}}
						if strings.Contains(target, "?") {
							req.Query = "x=https://evil.example.com/"
						}
						rep := serveMulti(prov, req, h.name, h.vals)
						effHost := host
						if h.first != "" && h.first != "-" {
							effHost = h.first
						}
						scheme := "https://"
						if insecure {
							scheme = "http://"
						}
						np := path
						if np != "" && !strings.HasPrefix(np, "/") {
							np = "/" + np
						}
						wantIssuer := scheme + effHost + np
						wantEntity := strings.TrimSuffix(wantIssuer, "/") + "/metadata"
						got := entityIDOf(rep.Body)
						c.nontrivial(fmt.Sprintf("%s|%v|%s|%s|%v", path, insecure, host, h.name, h.vals))
						c.hist("forwarded", map[bool]string{true: "used", false: "host-fallback"}[effHost != host])
						if got != wantEntity {
							c.issue(Issue{Kind: "violation", What: "entityID of the served metadata is not scheme + first forwarded host (else Host) + configured path", Site: "issuerFromForwardedOrHost",
								Class: fmt.Sprintf("derived-issuer:hdr=%s", h.name), Detail: map[string]interface{}{"path": path, "insecure": insecure, "host": host, "header": h.name, "values": h.vals, "got": got, "want": wantEntity}})
						}
						if ok {
							// model: generated dynamicIssuer vs the real one
							out := reflect.ValueOf(dyn).Call([]reflect.Value{reflect.ValueOf(effHost), reflect.ValueOf(path), reflect.ValueOf(insecure)})
							line, e := fnLine("dynamicIssuer", nil, []string{tokStr(effHost)}, []string{tokStr(path)}, []string{tokBool(insecure)})
							if e == nil {
								b.add(line, "ok "+tokStr(out[0].String()), nil)
							}
							if out[0].String() != wantIssuer {
								c.issue(Issue{Kind: "violation", What: "dynamicIssuer differs from the documented shape", Site: "dynamicIssuer", Class: "shape", Detail: map[string]interface{}{"host": effHost, "path": path, "insecure": insecure, "got": out[0].String()}})
							}
						}
					}
				}
			}
		}
	}
	// a path with query/fragment must be refused for host-derived issuers too
	for _, path := range []string{"/saml?x=1", "/saml?", "/saml#f", "/saml#", "saml?&"} {
		c.rep.Evaluations++
		cfg := defaultIdpCfg()
		cfg.Issuer, cfg.IssuerPath = "", path
		if _, err := newProvider(newStorage(), cfg); err == nil {
			c.issue(Issue{Kind: "violation", What: "host-derived issuer accepts a path with query or fragment", Site: "issuerFromForwardedOrHost", Class: "path-with-query-or-fragment", Detail: map[string]interface{}{"path": path}})
		}
	}
	b.flush()
}

func entityIDOf(body string) string {
	i := strings.Index(body, `entityID="`)
	if i < 0 {
		return ""
	}
	rest := body[i+len(`entityID="`):]
	j := strings.Index(rest, `"`)
	if j < 0 {
		return ""
	}
	return xmlUnescape(rest[:j])
}

func xmlUnescape(s string) string {
	r := strings.NewReplacer("&amp;", "&", "&lt;", "<", "&gt;", ">", "&#34;", `"`, "&#39;", "'", "&quot;", `"`, "&apos;", "'")
	return r.Replace(s)
}
