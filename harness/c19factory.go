package main

// C19 — the issuer factories through their exported constructors against the regenerated closure levels
// (issuerFromForwardedOrHost_validate / _derive, StaticIssuer_validate / _derive; go2lean FuncSpec.Part) and against
// the statement of the property read directly: scheme + first host of the configured headers else Host + path.

import (
	"fmt"
	"net/http"
	"net/http/httptest"
	"net/url"
	"strconv"
	"strings"
	"unicode/utf8"

	"github.com/muhlemmer/httpforwarded"
	"github.com/zitadel/saml/pkg/provider"
)

var c19FwdValues = []string{
	"host=fwd.example.com", `host="quoted.example.com:444"`, "for=192.0.2.43, for=198.51.100.17;host=second.example.com",
	"host=first.example.com, host=second.example.com", "HOST=upper.example.com", "for=1.2.3.4;proto=https", "host", `host="unterminated`,
	"", "proto=http;host=p.example.com;by=203.0.113.43", "host=a.example.com;host=b.example.com", "for=\"[2001:db8::1]\";host=\"[::1]:8080\"", "host=;for=x", ";;", "host==x",
}

func listTokens(xs []string) []string {
	out := []string{strconv.Itoa(len(xs))}
	for _, x := range xs {
		out = append(out, tokStr(x))
	}
	return out
}

func errTokens(err error) []string {
	if err == nil {
		return []string{"-"}
	}
	return []string{"+", tokStr(err.Error())}
}

func c19Factories(c *Ctx) {
	bv := &batch{c: c, site: "fn issuerFromForwardedOrHost_validate"}
	bd := &batch{c: c, site: "fn issuerFromForwardedOrHost_derive"}
	bs := &batch{c: c, site: "fn StaticIssuer_validate"}
	hdrPool := []string{"Forwarded", "X-Forwarded-Host", "x-custom-fwd", "X-Real-Host"}
	paths := []string{"", "/", "saml", "/saml", "/a/b", "a/b/", "/saml?x=1", "/saml?", "/saml#f", "saml#", "/t/caf%C3%A9/saml", "//static.example.net/x", "/%zz", ":/x", "/a b"}
	hosts := []string{"idp.example.com", "idp.example.com:8443", "[::1]:8080", "EXAMPLE.com", ""}
	n := 1500
	if c.thorough() {
		n = 40000
	}
	urlOra := func(s string) []string {
		u, e := url.Parse(s)
		if e != nil {
			return tableTokens([]string{"-"}, nil)
		}
		return tableTokens(append([]string{"+"}, urlRecTokens(u)...), nil)
	}
	for i := 0; i < n; i++ {
		c.rep.Evaluations++
		path := c.rng.pick(paths)
		insecure := c.rng.bool()
		// configuration: default (Forwarded) or custom header names, in any spelling
		var cfgHdrs []string
		custom := c.rng.chance(70)
		if custom {
			for k := c.rng.intn(4); k > 0; k-- {
				h := c.rng.pick(hdrPool)
				if c.rng.chance(30) {
					h = strings.ToLower(h)
				}
				cfgHdrs = append(cfgHdrs, h)
			}
		}
		var factory func(bool) (provider.IssuerFromRequest, error)
		var canon []string
		if custom {
			factory = provider.IssuerFromForwardedOrHost(path, provider.WithIssuerFromCustomHeaders(append([]string{}, cfgHdrs...)...))
			for _, h := range cfgHdrs {
				canon = append(canon, http.CanonicalHeaderKey(h))
			}
			if canon == nil {
				canon = []string{}
			}
		} else {
			factory = provider.IssuerFromForwardedOrHost(path)
			canon = []string{"Forwarded"}
		}
		derive, err := factory(insecure)
		cfgTok := append([]string{"+"}, listTokens(canon)...)
		if utf8.ValidString(path) {
			if line, e := fnLine("issuerFromForwardedOrHost_validate", Ora{"urlParse": urlOra(path)}, []string{tokStr(path)}, cfgTok, []string{tokBool(insecure)}); e == nil {
				p2 := path
				bv.add(line, "ok "+strings.Join(errTokens(err), " "), func() map[string]interface{} { return map[string]interface{}{"path": p2} })
			} else {
				c.issue(Issue{Kind: "disagreement", What: e.Error(), Site: bv.site})
			}
		}
		if strings.ContainsAny(path, "?#") && err == nil {
			c.issue(Issue{Kind: "violation", What: "host-derived issuer accepts a path with query or fragment", Site: "issuerFromForwardedOrHost", Class: "path-with-query-or-fragment", Detail: map[string]interface{}{"path": path}})
		}
		c.hist("factory", map[bool]string{true: "constructed", false: "refused"}[err == nil])
		if err != nil {
			continue
		}
		// a request: Host, any of the pool headers with 0..3 values each, plus material the issuer must not use
		host := c.rng.pick(hosts)
		scheme := c.rng.pick([]string{"http", "https"})
		req := httptest.NewRequest("GET", scheme+"://ignored.example.org/evil/path?x=https://evil.example.com/&host=q.example.com", nil)
		req.Host = host
		req.Header.Set("X-Forwarded-Proto", c.rng.pick([]string{"http", "https", "ftp"}))
		req.Header.Set("X-Forwarded-Prefix", "/evil")
		hv := map[string][]string{}
		for _, h := range hdrPool {
			for k := c.rng.intn(4); k > 0; k-- {
				v := c.rng.pick(c19FwdValues)
				req.Header.Add(h, v)
				hv[http.CanonicalHeaderKey(h)] = append(hv[http.CanonicalHeaderKey(h)], v)
			}
		}
		got := derive(req)
		// the property read directly, with the library's RFC 7239 parser as the reading of "first host"
		eff, used := host, ""
		for _, h := range canon {
			hs, e := httpforwarded.ParseParameter("host", hv[h])
			if e == nil && len(hs) > 0 {
				eff, used = hs[0], h
				break
			}
		}
		np := path
		if np != "" && !strings.HasPrefix(np, "/") {
			np = "/" + np
		}
		want := map[bool]string{true: "http://", false: "https://"}[insecure] + eff + np
		c.nontrivial(fmt.Sprintf("%s|%v|%v|%s|%v", path, insecure, canon, host, hv))
		c.hist("derived-from", map[bool]string{true: "forwarded", false: "host"}[used != ""])
		detail := map[string]interface{}{"path": path, "insecure": insecure, "configured_headers": cfgHdrs, "host": host, "headers": hv, "request_url_scheme": scheme, "got": got, "want": want}
		if got != want {
			c.issue(Issue{Kind: "violation", What: "derived issuer is not scheme + first host of the configured headers (else Host) + configured path", Site: "issuerFromForwardedOrHost", Class: "derived-issuer:factory", Detail: detail})
		}
		// model: the regenerated per-request closure on the same answers
		var hrows, prows [][2][]string
		seen := map[string]bool{}
		for _, h := range canon {
			if seen[h] {
				continue
			}
			seen[h] = true
			hrows = append(hrows, [2][]string{{tokStr(h)}, listTokens(hv[h])})
		}
		seenV := map[string]bool{}
		for _, h := range canon {
			key := strings.Join(hv[h], "\x00") + fmt.Sprint(len(hv[h]))
			if seenV[key] {
				continue
			}
			seenV[key] = true
			hs, e := httpforwarded.ParseParameter("host", hv[h])
			ok := true
			for _, x := range hs {
				ok = ok && utf8.ValidString(x)
			}
			if !ok {
				continue
			}
			prows = append(prows, [2][]string{append([]string{tokStr("host")}, listTokens(hv[h])...), append(listTokens(hs), errTokens(e)...)})
		}
		ora := Ora{"reqHost": {tokStr(host)}, "headerValues": tableTokens([]string{"0"}, hrows), "forwardedParse": tableTokens([]string{"0", "-"}, prows)}
		if line, e := fnLine("issuerFromForwardedOrHost_derive", ora, []string{tokStr(path)}, cfgTok, []string{tokBool(insecure)}); e == nil {
			bd.add(line, "ok "+tokStr(got), func() map[string]interface{} { return detail })
		} else {
			c.issue(Issue{Kind: "disagreement", What: e.Error(), Site: bd.site})
		}
	}
	// StaticIssuer through its factory
	for _, iss := range c19Issuers {
		for _, insecure := range []bool{false, true} {
			c.rep.Evaluations++
			fn, err := provider.StaticIssuer(iss)(insecure)
			if (err == nil) != (provider.ValidateIssuer(iss, insecure) == nil) {
				c.issue(Issue{Kind: "violation", What: "StaticIssuer and ValidateIssuer disagree", Site: "StaticIssuer", Class: "constructor-vs-validator", Detail: map[string]interface{}{"issuer": iss, "insecure": insecure}})
			}
			if err == nil {
				req := httptest.NewRequest("GET", "http://other.example.org/x?y", nil)
				req.Header.Set("Forwarded", "host=evil.example.com")
				if got := fn(req); got != iss {
					c.issue(Issue{Kind: "violation", What: "static issuer changes with the request", Site: "StaticIssuer", Class: "static-derive", Detail: map[string]interface{}{"issuer": iss, "got": got}})
				}
			}
			u, uerr := url.Parse(iss)
			if !utf8.ValidString(iss) || (uerr == nil && !(utf8.ValidString(u.Host) && utf8.ValidString(u.Hostname()) && utf8.ValidString(u.Fragment) && utf8.ValidString(u.RawQuery))) {
				continue
			}
			if line, e := fnLine("StaticIssuer_validate", Ora{"urlParse": urlOra(iss)}, []string{tokStr(iss)}, []string{tokBool(insecure)}); e == nil {
				i2 := iss
				bs.add(line, "ok "+strings.Join(errTokens(err), " "), func() map[string]interface{} { return map[string]interface{}{"issuer": i2} })
			} else {
				c.issue(Issue{Kind: "disagreement", What: e.Error(), Site: bs.site})
			}
		}
	}
	bv.flush()
	bd.flush()
	bs.flush()
}
