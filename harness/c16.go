package main

// C16 — consumer endpoint selection.

import (
	"fmt"
	"strconv"

	"github.com/zitadel/saml/pkg/provider"
	"github.com/zitadel/saml/pkg/provider/xml/md"
)

func init() { props["C16"] = runC16 }

var c16Bindings = []string{provider.PostBinding, provider.RedirectBinding, "urn:oasis:names:tc:SAML:2.0:bindings:HTTP-Artifact", "urn:example:other"}
var c16Index = []string{"0", "1", "2", "7", "65535"}
var c16Default = []string{"", "true", "false", "1", "0"}

func xsTrue(s string) bool { return s == "true" || s == "1" }

// acsSpecOK is the property monitor: an independent reading of the statement.
func acsSpecOK(acs []md.IndexedEndpointType, req string, url, binding string) (bool, string) {
	if len(acs) == 0 {
		if url == "" && binding == "" {
			return true, ""
		}
		return false, "something chosen although nothing is registered"
	}
	for _, e := range acs {
		if e.Binding == req {
			if url == e.Location && binding == e.Binding {
				return true, ""
			}
			return false, "entries with the requested binding exist but the first of them was not chosen"
		}
	}
	for _, e := range acs {
		if xsTrue(e.IsDefault) {
			if url == e.Location && binding == e.Binding {
				return true, ""
			}
			return false, "first isDefault entry not chosen"
		}
	}
	min := 0
	for i, e := range acs {
		v, _ := strconv.Atoi(e.Index)
		if i == 0 || v < min {
			min = v
		}
	}
	for _, e := range acs {
		v, _ := strconv.Atoi(e.Index)
		if v == min && url == e.Location && binding == e.Binding {
			return true, ""
		}
	}
	return false, "entry with the lowest index not chosen"
}

func c16Class(acs []md.IndexedEndpointType, req string) string {
	hasReq, hasDef, hasDef1, hasZero := false, false, false, false
	for _, e := range acs {
		if e.Binding == req {
			hasReq = true
		}
		if e.IsDefault == "true" {
			hasDef = true
		}
		if e.IsDefault == "1" {
			hasDef1 = true
		}
		if e.Index == "0" {
			hasZero = true
		}
	}
	switch {
	case len(acs) == 0:
		return "empty"
	case hasReq:
		return "requested-binding"
	case hasDef:
		return "isDefault=true"
	case hasDef1:
		return "isDefault=1"
	case hasZero:
		return "lowest-index(with index 0)"
	}
	return "lowest-index"
}

func runC16(c *Ctx) {
	c.rep.Rule = "ACS lists enumerated exhaustively up to a length bound over binding{POST,Redirect,Artifact,other} x index{0,1,2,7,65535} x isDefault{absent,true,false,1,0} with distinct locations, crossed with requested binding {absent, each listed, one unlisted}; longer lists random. A case is non-trivial when the list is non-empty; distinct = distinct (list, requested) pair."
	b := &batch{c: c, site: "fn GetAcsUrlAndBindingForResponse"}
	one := func(acs []md.IndexedEndpointType, req string) {
		c.rep.Evaluations++
		url, binding := provider.GetAcsUrlAndBindingForResponse(acs, req)
		cls := c16Class(acs, req)
		c.hist("decisive-rule", cls)
		c.hist("list-length", strconv.Itoa(len(acs)))
		if len(acs) > 0 {
			c.rep.DistinctNontrivial++ // enumeration / random draws: duplicates are negligible and only undercounted below
		}
		if ok, why := acsSpecOK(acs, req, url, binding); !ok {
			cl := cls
			c.issue(Issue{Kind: "violation", What: why, Site: "GetAcsUrlAndBindingForResponse", Class: cl,
				Detail: map[string]interface{}{"acs": acs, "requested": req, "got_url": url, "got_binding": binding}})
		}
		line, err := fnLine("GetAcsUrlAndBindingForResponse", nil, mustEnc("List md_IndexedEndpointType", acs), []string{tokStr(req)})
		if err != nil {
			c.issue(Issue{Kind: "disagreement", What: err.Error(), Site: "fn GetAcsUrlAndBindingForResponse"})
			return // (the independent monitor above has already judged this case; the next cases run: `one` is per case)
		}
		want := "ok " + tokStr(url) + " " + tokStr(binding)
		acsCopy := append([]md.IndexedEndpointType{}, acs...)
		b.add(line, want, func() map[string]interface{} { return map[string]interface{}{"acs": acsCopy, "requested": req} })
		if c.rep.Evaluations%9973 == 1 {
			c.sample(map[string]interface{}{"acs": acsCopy, "requested": req, "chosen": []string{url, binding}})
		}
	}
	reqs := func(acs []md.IndexedEndpointType) []string {
		rs := []string{"", "urn:example:unlisted"}
		seen := map[string]bool{}
		for _, e := range acs {
			if !seen[e.Binding] {
				seen[e.Binding] = true
				rs = append(rs, e.Binding)
			}
		}
		return rs
	}
	maxExh := 2
	if c.thorough() {
		maxExh = 3
	}
	var rec func(prefix []md.IndexedEndpointType, n int)
	rec = func(prefix []md.IndexedEndpointType, n int) {
		if len(prefix) == n {
			for _, r := range reqs(prefix) {
				one(prefix, r)
			}
			return
		}
		for _, bd := range c16Bindings {
			for _, ix := range c16Index {
				for _, df := range c16Default {
					e := md.IndexedEndpointType{Index: ix, IsDefault: df, Binding: bd, Location: fmt.Sprintf("https://sp.example/acs%d", len(prefix))}
					rec(append(prefix, e), n)
				}
			}
		}
	}
	for n := 0; n <= maxExh; n++ {
		rec(nil, n)
	}
	// random longer lists
	nRand := 30000
	if c.thorough() {
		nRand = 600000
	}
	for i := 0; i < nRand; i++ {
		n := maxExh + 1 + c.rng.intn(4)
		acs := make([]md.IndexedEndpointType, n)
		for j := range acs {
			acs[j] = md.IndexedEndpointType{Index: c.rng.pick(c16Index), IsDefault: c.rng.pick(c16Default), Binding: c.rng.pick(c16Bindings), Location: fmt.Sprintf("https://sp.example/acs%d", j)}
			if c.rng.chance(40) {
				acs[j].IsDefault = "" // make the lowest-index rule decisive more often
			}
		}
		rs := reqs(acs)
		one(acs, rs[c.rng.intn(len(rs))])
	}
	b.flush()
	// end to end: the pair the SSO endpoint persists is the pair the selection function returns for the registered list
	// and the requested binding - URL and binding of one and the same registered entry
	for _, acsLabel := range ssoDimVals("acs") {
		for _, pb := range ssoDimVals("protobinding") {
			r := runSso(baseCase().with("acs", acsLabel, "protobinding", pb))
			c.rep.Evaluations++
			_, okCreates := r.creates()
			if len(okCreates) == 0 {
				c.hist("end-to-end", "not-persisted")
				continue
			}
			c.hist("end-to-end", "persisted")
			var list []md.IndexedEndpointType
			reg := map[string]string{}
			for _, a := range r.SP.Acs {
				list = append(list, md.IndexedEndpointType{Index: a.Index, IsDefault: a.IsDefault, Binding: a.Binding, Location: a.Location})
				reg[a.Location] = a.Binding
			}
			requested := map[string]string{"post": provider.PostBinding, "redirect": provider.RedirectBinding, "artifact": artifactBind, "other": "urn:example:other"}[pb]
			wantURL, wantBinding := provider.GetAcsUrlAndBindingForResponse(list, requested)
			gotURL, gotBinding := okCreates[0].Args[0], okCreates[0].Args[1]
			if b2, found := reg[gotURL]; !found || b2 != gotBinding || gotURL != wantURL || gotBinding != wantBinding {
				c.issue(Issue{Kind: "violation", What: "the (URL, binding) pair the SSO endpoint persisted is not the registered entry the selection rule picks", Site: "ssoHandleFunc",
					Class: "persisted-pair:acs=" + acsLabel + ",requested=" + pb, Detail: map[string]interface{}{"registered": r.SP.Acs, "requested": requested, "persisted": []string{gotURL, gotBinding}, "selected": []string{wantURL, wantBinding}}})
			}
		}
	}
	c.rep.Exhaustive = false
	c.rep.Notes = append(c.rep.Notes, fmt.Sprintf("exhaustive for list length <= %d, random for lengths %d..%d", maxExh, maxExh+1, maxExh+4))
}

func ssoDimVals(name string) []string {
	for _, d := range ssoDims {
		if d.name == name {
			return d.vals
		}
	}
	return nil
}
