package main

// Model side of SSO runs: the `sso` op line is built from the library's own view of the request
// (abstraction check: its exported/shimmed decoders), the registry and the oracle answers.

import (
	"context"
	"encoding/base64"
	"fmt"
	"net/http/httptest"
	"reflect"
	"strings"
	"time"

	"github.com/zitadel/saml/pkg/provider"
	"github.com/zitadel/saml/pkg/provider/serviceprovider"
	samlxml "github.com/zitadel/saml/pkg/provider/xml"
	"github.com/zitadel/saml/pkg/provider/xml/samlp"
)

func errTok(err error) []string {
	if err == nil {
		return []string{"-"}
	}
	return []string{"+", tokStr(strings.ToValidUTF8(err.Error(), "?"))}
}



// formOf calls the library's own form reader (through the export shim).
func formOf(r HTTPReq) (*provider.AuthRequestForm, error) {
	fn, ok := provider.VerifExports["getAuthRequestFromRequest"]
	if !ok {
		return nil, fmt.Errorf("getAuthRequestFromRequest not exported (source changed)")
	}
	target := r.Path
	if r.Query != "" {
		target += "?" + r.Query
	}
	req := httptest.NewRequest(r.Method, "https://idp.example.com"+target, strings.NewReader(r.Body))
	if r.CType != "" {
		req.Header.Set("Content-Type", r.CType)
	}
	out := reflect.ValueOf(fn).Call([]reflect.Value{reflect.ValueOf(req)})
	if !out[1].IsNil() {
		return nil, nil
	}
	return out[0].Interface().(*provider.AuthRequestForm), nil
}

func optTok(present bool, toks []string) []string {
	if !present {
		return []string{"-"}
	}
	return append([]string{"+"}, toks...)
}

func timeTable(now time.Time, layout string, vals ...string) []string {
	var rows [][2][]string
	seen := map[string]bool{}
	for _, v := range vals {
		if seen[v] {
			continue
		}
		seen[v] = true
		t, err := time.Parse(layout, v)
		res := []string{"-"}
		if err == nil {
			res = []string{"+", tokInt(t.UnixNano())}
		}
		rows = append(rows, [2][]string{{tokStr(layout), tokStr(v)}, res})
	}
	return tableTokens([]string{"-"}, rows)
}

// ssoModelLine returns the op line and the canonical form of what the implementation did.
func ssoModelLine(r *SsoRun, prov *provider.Provider) (string, string, error) {
	ora := Ora{}
	now := time.Now()
	ora["now"] = []string{tokInt(now.UnixNano())}
	metaErr := r.Case["respkey"] != "ok"
	// idp metadata as the handler sees it
	idpTok := []string{"-"}
	if !metaErr {
		ctx := provider.ContextWithIssuer(context.Background(), defaultIdpCfg().Issuer)
		ed, err := prov.GetMetadata(ctx)
		if err != nil || ed.IDPSSODescriptor == nil {
			return "", "", fmt.Errorf("cannot obtain IdP metadata: %v", err)
		}
		t, err := meta.encode("md_IDPSSODescriptorType", reflect.ValueOf(ed.IDPSSODescriptor))
		if err != nil {
			return "", "", err
		}
		idpTok = append([]string{"+"}, t...)
	}
	form, err := formOf(r.Req)
	if err != nil {
		return "", "", err
	}
	formTok := []string{"-"}
	var decoded *samlp.AuthnRequestType
	var sp *serviceprovider.ServiceProvider
	if form != nil {
		formTok = []string{"+", tokStr(form.AuthRequest), tokStr(form.Encoding), tokStr(form.RelayState), tokStr(form.SigAlg), tokStr(form.Sig), tokStr(form.Binding)}
		if d, err := samlxml.DecodeAuthNRequest(form.Encoding, form.AuthRequest); err == nil {
			decoded = d
		}
	}
	decTok := []string{"-"}
	timeVals := []string{}
	if decoded != nil {
		t, err := meta.encode("samlp_AuthnRequestType", reflect.ValueOf(decoded))
		if err != nil {
			return "", "", err
		}
		decTok = append([]string{"+"}, t...)
		if decoded.Conditions != nil {
			timeVals = append(timeVals, decoded.Conditions.NotBefore, decoded.Conditions.NotOnOrAfter)
		}
		if decoded.Issuer != nil && r.Case["lookup"] == "ok" {
			sp = r.Storage.SPs[decoded.Issuer.Text]
			if sp == nil && r.Storage.FoldEntityCase {
				// the oracle answer is what the storage returns: this storage resolves entity IDs case-insensitively
				for id, cand := range r.Storage.SPs {
					if strings.EqualFold(id, decoded.Issuer.Text) {
						sp = cand
					}
				}
			}
		}
	}
	ora["timeParse"] = timeTable(now, provider.DefaultTimeFormat, timeVals...)
	spTok := []string{"-"}
	if sp != nil {
		t, err := meta.encode("serviceprovider_ServiceProvider", reflect.ValueOf(sp))
		if err != nil {
			return "", "", err
		}
		spTok = append([]string{"+"}, t...)
		if form != nil {
			func() {
				defer func() {
					if x := recover(); x != nil {
						ora["m_ValidateRedirectSignature"] = tableTokens([]string{"+", tokStr("panic")}, nil)
					}
				}()
				ora["m_ValidateRedirectSignature"] = tableTokens(errTok(sp.ValidateRedirectSignature(form.AuthRequest, form.RelayState, form.SigAlg, form.Sig)), nil)
			}()
			if data, err := base64.StdEncoding.DecodeString(form.AuthRequest); err == nil {
				func() {
					defer func() {
						if x := recover(); x != nil {
							ora["m_ValidatePostSignature"] = tableTokens([]string{"+", tokStr("panic")}, nil)
						}
					}()
					ora["m_ValidatePostSignature"] = tableTokens(errTok(sp.ValidatePostSignature(string(data))), nil)
				}()
			}
		}
	}
	oraTok, err := meta.oraTokens(ora)
	if err != nil {
		return "", "", err
	}
	toks := []string{"sso"}
	toks = append(toks, oraTok...)
	toks = append(toks, tokBool(metaErr))
	toks = append(toks, idpTok...)
	toks = append(toks, formTok...)
	toks = append(toks, decTok...)
	toks = append(toks, spTok...)
	toks = append(toks, tokBool(r.Case["create"] == "ok"), tokStr("ar-1"))
	return strings.Join(toks, " "), ssoCanon(r), nil
}

// ssoCanon renders what the implementation did in the driver's canonical form (without the #step suffix).
func ssoCanon(r *SsoRun) string {
	d := r.Deliv
	head := ""
	switch d.Kind {
	case "panic":
		return "panic"
	case "http-error":
		head = fmt.Sprintf("http %d", d.Code)
	case "login303":
		id := strings.TrimPrefix(d.Target, loginURL(""))
		head = "login " + tokStr(id)
	case "post", "redirect", "xmlbody":
		if d.Msg == nil {
			head = "unparsable-reply " + d.Err
			break
		}
		target, relay := d.Target, d.Relay
		if d.Kind == "xmlbody" {
			target, relay = "", ""
		}
		head = strings.Join([]string{"fail", statusShort(d.Msg.Status), d.Kind, tokStr(target), tokStr(relay), tokStr(d.Msg.InResponseTo)}, " ")
	default:
		head = "other:" + d.Kind
	}
	persist := "-"
	all, _ := r.creates()
	if len(all) > 0 {
		c := all[0]
		st := "ok"
		if c.Err {
			st = "err"
		}
		persist = strings.Join([]string{st, tokStr(c.Args[0]), tokStr(c.Args[1]), tokStr(c.Args[2]), tokStr(c.Args[3]), tokStr(c.Args[4])}, " ")
		if len(all) > 1 {
			persist += fmt.Sprintf(" (+%d more)", len(all)-1)
		}
	}
	return head + " | " + persist
}

// stripStep removes the `#step=n` annotation of the model's reply and returns it separately.
func stripStep(s string) (string, string) {
	i := strings.Index(s, " #step=")
	if i < 0 {
		return s, ""
	}
	j := strings.Index(s[i+1:], " ")
	if j < 0 {
		return s[:i], s[i+7:]
	}
	return s[:i] + s[i+1+j:], s[i+7 : i+1+j]
}
