package main

import (
	"context"
	"fmt"
	"reflect"
	"sort"
	"strings"

	"github.com/zitadel/saml/pkg/provider"
	"github.com/zitadel/saml/pkg/provider/serviceprovider"
	samlxml "github.com/zitadel/saml/pkg/provider/xml"
)

func init() { aqModelCompare = aqCompare }

func aqCanon(r *AqRun) string {
	d := r.Deliv
	switch d.Kind {
	case "panic":
		return "panic"
	case "http-error":
		return fmt.Sprintf("http %d", d.Code)
	case "soap":
	default:
		return "other:" + d.Kind + " " + d.Err
	}
	m := d.Msg
	lookedUp := ""
	if calls := r.Storage.CallsOf("SetUserinfoWithLoginName"); len(calls) > 0 {
		lookedUp = calls[0].Args[0]
	}
	t := []string{"soap", tokStr(m.InResponseTo), tokStr(m.Issuer), tokStr(strings.Join(m.Audiences, ",")), tokStr(m.NameID), tokStr(lookedUp)}
	attrs := append([]MsgAttr{}, m.Attrs...)
	// custom attributes come out of a Go map: compare with a canonical order (stable sort of the non-standard tail by name)
	nStd := 0
	std := map[string]bool{"Email": true, "SurName": true, "FirstName": true, "FullName": true, "UserName": true, "UserID": true}
	for nStd < len(attrs) && std[attrs[nStd].Name] && attrs[nStd].Format == basicFmt && attrs[nStd].Friendly == "" {
		nStd++
	}
	tail := attrs[nStd:]
	sort.SliceStable(tail, func(i, j int) bool { return tail[i].Name < tail[j].Name })
	t = append(t, fmt.Sprint(len(attrs)))
	for _, a := range attrs {
		t = append(t, msgAttrTokens(a)...)
	}
	return strings.Join(t, " ")
}

func aqCompare(c *Ctx, r *AqRun) {
	if c.drv == nil {
		return
	}
	cs := r.Case
	fail := func(err error) {
		c.issue(Issue{Kind: "disagreement", What: "cannot build the model input: " + err.Error(), Site: "aq op", Detail: r.detail()})
	}
	ora := Ora{"m_GetResponseSigningKey": keyOra(cs["respkey"])}
	metaErr := cs["respkey"] != "ok"
	aaTok := []string{"-"}
	if !metaErr {
		ctx := provider.ContextWithIssuer(context.Background(), defaultIdpCfg().Issuer)
		ed, err := r.Prov.GetMetadata(ctx)
		if err != nil || ed.AttributeAuthorityDescriptor == nil {
			fail(fmt.Errorf("no IdP metadata: %v", err))
			return
		}
		t, err := meta.encode("md_AttributeAuthorityDescriptorType", reflect.ValueOf(ed.AttributeAuthorityDescriptor))
		if err != nil {
			fail(err)
			return
		}
		aaTok = append([]string{"+"}, t...)
	}
	decTok := []string{"-"}
	var sp *serviceprovider.ServiceProvider
	sigOk := false
	q, err := samlxml.DecodeAttributeQuery(r.Doc)
	if err == nil {
		if q == nil {
			decTok = []string{"+", "-"}
		} else {
			t, err := meta.encode("samlp_AttributeQueryType", reflect.ValueOf(q))
			if err != nil {
				fail(err)
				return
			}
			decTok = append([]string{"+", "+"}, t...)
			if q.Issuer != nil && cs["lookup"] == "ok" {
				sp = r.Storage.SPs[q.Issuer.Text]
			}
		}
	}
	spTok := []string{"-"}
	if sp != nil {
		t, err := meta.encode("serviceprovider_ServiceProvider", reflect.ValueOf(sp))
		if err != nil {
			fail(err)
			return
		}
		spTok = append([]string{"+"}, t...)
		func() {
			defer func() { recover() }()
			sigOk = sp.ValidateAttributeQuerySignature(r.Doc) == nil
		}()
	}
	userTok := []string{"-"}
	if cs["userinfo"] == "ok" && q != nil && q.Subject.NameID != nil {
		if u := r.Storage.Users[q.Subject.NameID.Text]; u != nil {
			at, err := attrsTokens(u)
			if err != nil {
				fail(err)
				return
			}
			userTok = append([]string{"+"}, at...)
		}
	}
	oraTok, err := meta.oraTokens(ora)
	if err != nil {
		fail(err)
		return
	}
	toks := append([]string{"aq"}, oraTok...)
	toks = append(toks, tokStr("https://idp.example.com/saml/metadata"), "0", tokBool(metaErr))
	toks = append(toks, aaTok...)
	toks = append(toks, decTok...)
	toks = append(toks, spTok...)
	toks = append(toks, tokBool(sigOk))
	toks = append(toks, userTok...)
	toks = append(toks, "1")
	line := strings.Join(toks, " ")
	got := c.drv.Ask(line)
	want := aqCanon(r)
	c.rep.TracesValidated++
	if got != want {
		c.issue(Issue{Kind: "disagreement", What: "attribute-query model and implementation differ", Site: "aq op", Class: r.Deliv.Kind, Op: line, Model: got, Impl: want, Detail: r.detail()})
	}
}
