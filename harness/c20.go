package main

// C20 — validation chains: real checker with instrumented closures vs. the Lean model (`chk` op)
// and an independent monitor of the statement.

import (
	"errors"
	"fmt"
	"strconv"
	"strings"

	"github.com/zitadel/saml/pkg/provider/checker"
)

func init() { props["C20"] = runC20 }

type stepDesc struct {
	Kind   int      `json:"kind"` // 0 notEmpty 1 valuesNotEmpty 2 length 3 equals 4 condNotEmpty 5 condLogic 6 logic 7 valueStep
	V      string   `json:"v,omitempty"`
	Vs     []string `json:"vs,omitempty"`
	E      string   `json:"e,omitempty"`
	Min    int      `json:"min,omitempty"`
	Max    int      `json:"max,omitempty"`
	Cond   bool     `json:"cond,omitempty"`
	Err    bool     `json:"err,omitempty"`
	Remark string   `json:"outcome,omitempty"`
}

func (d stepDesc) tokens() []string {
	t := []string{strconv.Itoa(d.Kind)}
	switch d.Kind {
	case 0:
		t = append(t, tokStr(d.V))
	case 1:
		t = append(t, strconv.Itoa(len(d.Vs)))
		for _, v := range d.Vs {
			t = append(t, tokStr(v))
		}
	case 2:
		t = append(t, tokStr(d.V), strconv.Itoa(d.Min), strconv.Itoa(d.Max))
	case 3:
		t = append(t, tokStr(d.V), tokStr(d.E))
	case 4:
		t = append(t, tokBool(d.Cond), tokStr(d.V))
	case 5:
		t = append(t, tokBool(d.Cond), tokBool(d.Err))
	case 6:
		t = append(t, tokBool(d.Err))
	}
	return t
}

// documented failure condition (independent reading of the statement)
func (d stepDesc) fails() bool {
	switch d.Kind {
	case 0:
		return d.V == ""
	case 1:
		for _, v := range d.Vs {
			if v == "" {
				return true
			}
		}
		return false
	case 2:
		return (d.Min != 0 && d.Min > 0 && len(d.V) < d.Min) || (d.Max > 0 && len(d.V) > d.Max)
	case 3:
		return d.V != d.E
	case 4:
		return d.Cond && d.V == ""
	case 5:
		return d.Cond && d.Err
	case 6:
		return d.Err
	}
	return false
}

type chkEv struct {
	step int
	role string
}

func runRealChecker(prog []stepDesc) (bool, []chkEv, bool, []chkEv) {
	var tr []chkEv
	c := &checker.Checker{}
	for i, d := range prog {
		i, d := i, d
		log := func(role string) { tr = append(tr, chkEv{i, role}) }
		value := func() string { log("value"); return d.V }
		errorFunc := func() { log("error") }
		switch d.Kind {
		case 0:
			c.WithValueNotEmptyCheck("v", value, errorFunc)
		case 1:
			c.WithValuesNotEmptyCheck(func() []string { log("values"); return d.Vs }, errorFunc)
		case 2:
			c.WithValueLengthCheck("v", value, d.Min, d.Max, errorFunc)
		case 3:
			c.WithValueEqualsCheck("v", value, func() string { log("equal"); return d.E }, errorFunc)
		case 4:
			c.WithConditionalValueNotEmpty(func() bool { log("cond"); return d.Cond }, "v", value, errorFunc)
		case 5:
			c.WithConditionalLogicStep(func() bool { log("cond"); return d.Cond }, func() error {
				log("logic")
				if d.Err {
					return errors.New("e")
				}
				return nil
			}, errorFunc)
		case 6:
			c.WithLogicStep(func() error {
				log("logic")
				if d.Err {
					return errors.New("e")
				}
				return nil
			}, errorFunc)
		case 7:
			c.WithValueStep(func() { log("logic") })
		}
	}
	f1 := c.CheckFailed()
	t1 := tr
	tr = nil
	f2 := c.CheckFailed()
	return f1, t1, f2, tr
}

func showEvs(t []chkEv) string {
	var p []string
	for _, e := range t {
		p = append(p, fmt.Sprintf("%d:%s", e.step, e.role))
	}
	return strings.Join(p, " ")
}

// c20Monitor evaluates the statement on what the implementation did.
func c20Monitor(prog []stepDesc, failed bool, tr []chkEv, failed2 bool, tr2 []chkEv) string {
	first := -1
	for i, d := range prog {
		if d.fails() {
			first = i
			break
		}
	}
	if failed != (first >= 0) {
		return "verdict differs from 'some step failed'"
	}
	nerr := 0
	last := 0
	for _, e := range tr {
		if e.step < last {
			return "steps evaluated out of order"
		}
		last = e.step
		if e.role == "error" {
			nerr++
			if e.step != first {
				return "failure callback of a step that is not the first failing step ran"
			}
		}
		if first >= 0 && e.step > first {
			return "a closure of a step after the first failing step ran"
		}
	}
	if first >= 0 && nerr != 1 {
		return fmt.Sprintf("failure callback ran %d times", nerr)
	}
	if first < 0 && nerr != 0 {
		return "failure callback ran although no step failed"
	}
	if failed2 != failed || showEvs(tr2) != showEvs(tr) {
		return "re-evaluation behaved differently"
	}
	return ""
}

var c20Variants = []stepDesc{
	{Kind: 0, V: "x", Remark: "pass"}, {Kind: 0, V: "", Remark: "fail"},
	{Kind: 1, Vs: []string{"a", "b"}, Remark: "pass"}, {Kind: 1, Vs: []string{"a", "", "c"}, Remark: "fail"},
	{Kind: 2, V: "abcd", Min: 4, Max: 4, Remark: "pass"}, {Kind: 2, V: "abcd", Min: 0, Max: 3, Remark: "fail"},
	{Kind: 3, V: "a", E: "a", Remark: "pass"}, {Kind: 3, V: "a", E: "b", Remark: "fail"},
	{Kind: 4, Cond: true, V: "x", Remark: "pass"}, {Kind: 4, Cond: true, V: "", Remark: "fail"}, {Kind: 4, Cond: false, V: "", Remark: "cond-false"},
	{Kind: 5, Cond: true, Err: false, Remark: "pass"}, {Kind: 5, Cond: true, Err: true, Remark: "fail"}, {Kind: 5, Cond: false, Err: true, Remark: "cond-false"},
	{Kind: 6, Err: false, Remark: "pass"}, {Kind: 6, Err: true, Remark: "fail"},
	{Kind: 7, Remark: "pass"},
}

// corner cases of the length step (min/max = 0 disable a bound; min > max)
var c20LengthCorners = []stepDesc{
	{Kind: 2, V: "abcd", Min: 0, Max: 0}, {Kind: 2, V: "abcd", Min: 5, Max: 0}, {Kind: 2, V: "abcd", Min: 0, Max: 4},
	{Kind: 2, V: "abcd", Min: 4, Max: 10}, {Kind: 2, V: "abcd", Min: 6, Max: 4}, {Kind: 2, V: "", Min: 0, Max: 10},
	{Kind: 2, V: "", Min: 1, Max: 0}, {Kind: 2, V: "abcde", Min: 0, Max: 4}, {Kind: 2, V: "äö", Min: 3, Max: 4},
	{Kind: 2, V: "abcd", Min: -1, Max: -1}, {Kind: 2, V: "abcd", Min: 5, Max: 3},
}

// corner cases of the values step: no value, several empty values, empty first / last
var c20ValuesCorners = []stepDesc{
	{Kind: 1, Vs: nil}, {Kind: 1, Vs: []string{""}}, {Kind: 1, Vs: []string{"", ""}}, {Kind: 1, Vs: []string{"", "", ""}},
	{Kind: 1, Vs: []string{"a", "", ""}}, {Kind: 1, Vs: []string{"", "b", ""}}, {Kind: 1, Vs: []string{"", "", "c"}}, {Kind: 1, Vs: []string{" ", "\t"}},
}

func runC20(c *Ctx) {
	c.rep.Rule = "all step sequences up to a length bound over the 8 step kinds x outcome {pass, fail, condition false} (17 variants per position), plus length-step corner cases in every position of short chains and random longer chains with random string/length parameters; each case runs the real checker twice with instrumented closures. Non-trivial = at least one step; distinct by construction of the enumeration."
	b := &batch{c: c, site: "chk"}
	one := func(prog []stepDesc) {
		c.rep.Evaluations++
		f1, t1, f2, t2 := runRealChecker(prog)
		if len(prog) > 0 {
			c.rep.DistinctNontrivial++
		}
		first := -1
		for i, d := range prog {
			if d.fails() {
				first = i
				break
			}
		}
		c.hist("first-failing-step", strconv.Itoa(first))
		c.hist("chain-length", strconv.Itoa(len(prog)))
		if why := c20Monitor(prog, f1, t1, f2, t2); why != "" {
			kinds := ""
			if first >= 0 {
				kinds = strconv.Itoa(prog[first].Kind)
			}
			c.issue(Issue{Kind: "violation", What: why, Site: "checker.CheckFailed", Class: "first-failing-kind=" + kinds,
				Detail: map[string]interface{}{"program": prog, "verdict": f1, "trace": showEvs(t1), "verdict2": f2, "trace2": showEvs(t2)}})
		}
		toks := []string{"chk", strconv.Itoa(len(prog))}
		for _, d := range prog {
			toks = append(toks, d.tokens()...)
		}
		want := fmt.Sprintf("%s [%s] %s [%s] 1", tokBool(f1), showEvs(t1), tokBool(f2), showEvs(t2))
		pc := append([]stepDesc{}, prog...)
		b.add(strings.Join(toks, " "), want, func() map[string]interface{} { return map[string]interface{}{"program": pc} })
		if c.rep.Evaluations%7919 == 1 {
			c.sample(map[string]interface{}{"program": pc, "verdict": f1, "trace": showEvs(t1)})
		}
	}
	maxLen := 4
	if c.thorough() {
		maxLen = 5
	}
	var rec func(prefix []stepDesc, n int)
	rec = func(prefix []stepDesc, n int) {
		if len(prefix) == n {
			one(prefix)
			return
		}
		for _, v := range c20Variants {
			rec(append(prefix, v), n)
		}
	}
	for n := 0; n <= maxLen; n++ {
		rec(nil, n)
	}
	// length corners in every position of chains of length <= 3
	for n := 1; n <= 3; n++ {
		for pos := 0; pos < n; pos++ {
			for _, corner := range append(append([]stepDesc{}, c20LengthCorners...), c20ValuesCorners...) {
				for _, other := range []stepDesc{c20Variants[0], c20Variants[15], c20Variants[16]} {
					prog := make([]stepDesc, n)
					for i := range prog {
						prog[i] = other
					}
					prog[pos] = corner
					one(prog)
				}
			}
		}
	}
	// random longer chains
	nRand := 20000
	if c.thorough() {
		nRand = 400000
	}
	strs := []string{"", "a", "ab", "abcd", "abcdefgh", "ä", "x y", "\n"}
	for i := 0; i < nRand; i++ {
		n := 5 + c.rng.intn(36)
		prog := make([]stepDesc, n)
		failAt := c.rng.intn(n + n/2) // beyond n: no failing step intended (mostly)
		for j := range prog {
			d := stepDesc{Kind: c.rng.intn(8)}
			wantFail := j == failAt || (j > failAt && c.rng.chance(40))
			switch d.Kind {
			case 0:
				d.V = "x"
				if wantFail {
					d.V = ""
				}
			case 1:
				k := c.rng.intn(5)
				for q := 0; q < k; q++ {
					d.Vs = append(d.Vs, c.rng.pick(strs[1:]))
				}
				if wantFail {
					d.Vs = append(d.Vs, "")
					if c.rng.bool() {
						d.Vs = append(d.Vs, "z")
					}
				}
			case 2:
				d.V = c.rng.pick(strs)
				if wantFail {
					if c.rng.bool() {
						d.Min = len(d.V) + 1 + c.rng.intn(3)
						d.Max = c.rng.intn(12)
					} else if len(d.V) > 1 {
						d.Max = len(d.V) - 1
						d.Min = c.rng.intn(3)
					} else {
						d.Min = len(d.V) + 1
					}
				} else {
					d.Min = c.rng.intn(len(d.V) + 1)
					d.Max = 0
					if c.rng.bool() {
						d.Max = len(d.V) + c.rng.intn(3)
						if d.Max == 0 {
							d.Max = 0
						}
					}
				}
			case 3:
				d.V = c.rng.pick(strs)
				d.E = d.V
				if wantFail {
					d.E = d.V + "!"
				}
			case 4:
				d.Cond = c.rng.chance(70) || wantFail
				d.V = "x"
				if wantFail || (!d.Cond && c.rng.bool()) {
					d.V = ""
				}
			case 5:
				d.Cond = c.rng.chance(70) || wantFail
				d.Err = wantFail || (!d.Cond && c.rng.bool())
			case 6:
				d.Err = wantFail
			}
			prog[j] = d
		}
		one(prog)
	}
	b.flush()
	c.rep.Notes = append(c.rep.Notes, fmt.Sprintf("exhaustive over the 17 variants per position for chain length <= %d; random chains of length 5..40", maxLen))
}
