package main

// C10 — storage and key failures fail closed: fault enumeration per endpoint x storage call occurrence x fault kind.

import (
	"encoding/base64"
	"fmt"
	"net/url"
	"strings"
	"time"

	"github.com/zitadel/saml/pkg/provider"
	"github.com/zitadel/saml/pkg/provider/key"
)

func init() { props["C10"] = runC10 }

type faultSpec struct {
	Op   string `json:"op"`
	Occ  int    `json:"occurrence"`
	Kind string `json:"kind"` // error | nil | nokey | nocert | emptycert
}

type c10Endpoint struct {
	name  string
	build func() (*Storage, IdpCfg, HTTPReq)
}

func c10Endpoints() []c10Endpoint {
	now := time.Now()
	baseStorage := func() *Storage {
		st := newStorage()
		_ = st.Register(SPSpec{EntityID: spEntity, AppID: "app-1", ReqSigned: "-", Certs: []string{spKeys.B64}, Acs: acsFor("post+redirect"), Slo: []string{"https://sp.example.com/slo"}})
		st.Users["uid-1"] = usersFor("full")
		st.Users["alice"] = usersFor("full")
		return st
	}
	authn := AuthnSpec{ID: "id-4711", Version: "2.0", IssueInstant: now.UTC().Format("2006-01-02T15:04:05Z"), Destination: "-", ProtocolBinding: "-", AcsURL: "-", AcsIndex: "-", Issuer: spEntity, NotBefore: "-", NotOnOrAfter: "-"}.XML()
	ssoQuery := url.Values{"SAMLRequest": {deflateB64(authn)}, "RelayState": {"rs-1"}}.Encode()
	cbStorage := func(binding string) *Storage {
		st := baseStorage()
		st.Reqs["ar-7"] = &AuthReq{ID: "ar-7", AppID: "app-1", UserID: "uid-1", ReqID: "id-4711", Issuer: spEntity, Binding: binding, Acs: "https://sp.example.com/acs/post", Relay: "rs-1", IsDone: true}
		return st
	}
	lo, _ := logoutXML(sloBase(), now)
	aqBody := `<soap:Envelope xmlns:soap="http://schemas.xmlsoap.org/soap/envelope/"><soap:Body>` +
		fmt.Sprintf(`<samlp:AttributeQuery xmlns:samlp="%s" xmlns:saml="%s" ID="aq-1" Version="2.0" IssueInstant="%s"><saml:Issuer>%s</saml:Issuer><saml:Subject><saml:NameID>alice</saml:NameID></saml:Subject></samlp:AttributeQuery>`, nsProtocol, nsAssertion, now.UTC().Format("2006-01-02T15:04:05Z"), spEntity) +
		`</soap:Body></soap:Envelope>`
	signedMeta := defaultIdpCfg()
	signedMeta.MetaSigAlg = algRSASHA256
	return []c10Endpoint{
		{"sso", func() (*Storage, IdpCfg, HTTPReq) {
			return baseStorage(), defaultIdpCfg(), HTTPReq{Method: "GET", Path: "/SSO", Query: ssoQuery}
		}},
		{"callback-post", func() (*Storage, IdpCfg, HTTPReq) {
			return cbStorage(provider.PostBinding), defaultIdpCfg(), HTTPReq{Method: "GET", Path: "/login", Query: "id=ar-7"}
		}},
		{"callback-redirect", func() (*Storage, IdpCfg, HTTPReq) {
			return cbStorage(provider.RedirectBinding), defaultIdpCfg(), HTTPReq{Method: "GET", Path: "/login", Query: "id=ar-7"}
		}},
		{"logout", func() (*Storage, IdpCfg, HTTPReq) {
			return baseStorage(), defaultIdpCfg(), HTTPReq{Method: "POST", Path: "/SLO", Body: url.Values{"SAMLRequest": {plainB64(lo)}, "RelayState": {"rs"}}.Encode(), CType: "application/x-www-form-urlencoded"}
		}},
		{"attribute-query", func() (*Storage, IdpCfg, HTTPReq) {
			return baseStorage(), defaultIdpCfg(), HTTPReq{Method: "POST", Path: "/attribute", Body: aqBody, CType: "text/xml"}
		}},
		{"metadata", func() (*Storage, IdpCfg, HTTPReq) {
			return baseStorage(), defaultIdpCfg(), HTTPReq{Method: "GET", Path: "/metadata"}
		}},
		{"metadata-signed", func() (*Storage, IdpCfg, HTTPReq) {
			return baseStorage(), signedMeta, HTTPReq{Method: "GET", Path: "/metadata"}
		}},
		{"certificate", func() (*Storage, IdpCfg, HTTPReq) {
			return baseStorage(), defaultIdpCfg(), HTTPReq{Method: "GET", Path: "/certificate"}
		}},
		{"ready", func() (*Storage, IdpCfg, HTTPReq) { return baseStorage(), defaultIdpCfg(), HTTPReq{Method: "GET", Path: "/ready"} }},
		{"healthz", func() (*Storage, IdpCfg, HTTPReq) { return baseStorage(), defaultIdpCfg(), HTTPReq{Method: "GET", Path: "/healthz"} }},
	}
}

// keyFault lets the n-th call of a key getter return a malformed record instead of an error.
type keyFaultPlan map[string]map[int]string

func (s *Storage) applyKeyFault(op string, kind string) *key.CertificateAndKey {
	base := &key.CertificateAndKey{Key: idpKeys.Key, Certificate: idpKeys.Cert}
	switch kind {
	case "nil":
		return nil
	case "nokey":
		base.Key = nil
	case "nocert":
		base.Certificate = nil
	case "emptycert":
		base.Certificate = []byte{}
	}
	return base
}

func runC10(c *Ctx) {
	c.rep.Rule = "for every endpoint (SSO, callback POST/Redirect, logout, attribute query, metadata unsigned/signed, certificate, readiness, health): the storage-call trace of a fault-free run of a valid request is recorded, then the request is re-run with a fault at the 1st, 2nd, ... call occurrence - singly and in pairs - with each fault kind (returned error; for the two signing-key getters additionally nil record, key without certificate, certificate without key, empty certificate, and an error returned together with a complete record) and with an unusable signature algorithm. Non-trivial = the faulted call was reached; distinct = (endpoint, fault set)."
	initKeys()
	for _, ep := range c10Endpoints() {
		// baseline
		st, cfg, req := ep.build()
		prov, err := newProvider(st, cfg)
		if err != nil {
			panic(err)
		}
		st.ResetLog()
		base := serve(prov.HttpHandler(), req)
		baseCalls := append([]StorageCall{}, st.Calls...)
		bd := classify(base)
		c.hist("baseline:"+ep.name, fmt.Sprintf("%s/%d calls=%d", bd.Kind, base.Code, len(baseCalls)))
		if base.Panicked || base.Code >= 500 {
			c.issue(Issue{Kind: "violation", What: "fault-free baseline request fails on " + ep.name, Site: ep.name, Class: "baseline", Detail: map[string]interface{}{"code": base.Code, "body": base.Body[:min(300, len(base.Body))]}})
			continue
		}
		// occurrences per op in the baseline
		occ := map[string]int{}
		var sites []faultSpec
		for _, call := range baseCalls {
			occ[call.Op]++
			kinds := []string{"error"}
			if call.Op == "GetResponseSigningKey" || call.Op == "GetMetadataSigningKey" {
				kinds = append(kinds, "nil", "nokey", "nocert", "emptycert", "errwithrecord")
			}
			for _, k := range kinds {
				sites = append(sites, faultSpec{call.Op, occ[call.Op], k})
			}
		}
		run := func(faults []faultSpec, badAlg bool) {
			st, cfg, req := ep.build()
			if badAlg {
				cfg.SigAlg = "urn:example:not-an-algorithm"
				if cfg.MetaSigAlg != "" {
					cfg.MetaSigAlg = "urn:example:not-an-algorithm"
				}
			}
			st.KeyFaults = map[string]map[int]string{}
			for _, f := range faults {
				if f.Kind == "error" {
					st.Fail(f.Op, f.Occ)
				} else {
					if st.KeyFaults[f.Op] == nil {
						st.KeyFaults[f.Op] = map[int]string{}
					}
					st.KeyFaults[f.Op][f.Occ] = f.Kind
				}
			}
			prov, err := newProvider(st, cfg)
			if err != nil {
				return
			}
			st.ResetLog()
			rep := serve(prov.HttpHandler(), req)
			d := classify(rep)
			c.rep.Evaluations++
			// was a fault reached?
			reached := -1
			for i, call := range st.Calls {
				if call.Err || call.KeyFault != "" {
					reached = i
					break
				}
			}
			key := fmt.Sprintf("%s|%v|%v", ep.name, faults, badAlg)
			if reached >= 0 || badAlg {
				c.nontrivial(key)
			}
			outcome := d.Kind
			if d.Msg != nil {
				outcome += ":" + statusShort(d.Msg.Status)
			}
			c.hist("outcome:"+ep.name, outcome)
			detail := map[string]interface{}{"endpoint": ep.name, "faults": faults, "bad_signature_algorithm": badAlg, "reply_kind": d.Kind, "reply_code": rep.Code, "storage_calls": st.Calls}
			if c.rep.Evaluations%41 == 1 {
				c.sample(map[string]interface{}{"endpoint": ep.name, "faults": faults, "outcome": outcome})
			}
			if reached < 0 && !badAlg {
				return
			}
			cls := ep.name
			if len(faults) > 0 {
				cls += ":" + faults[0].Op + "/" + faults[0].Kind
			} else {
				cls += ":bad-algorithm"
			}
			if rep.Panicked {
				detail["panic"] = strings.SplitN(rep.PanicMsg, "\n", 2)[0]
				c.issue(Issue{Kind: "violation", What: "panic after an injected storage/key fault", Site: ep.name, Class: "panic:" + cls, Detail: detail})
				return
			}
			closed := rep.Code >= 500 || (d.Msg != nil && d.Msg.Status != "" && d.Msg.Status != provider.StatusCodeSuccess)
			if badAlg && (ep.name == "sso" || ep.name == "logout" || ep.name == "certificate" || ep.name == "ready" || ep.name == "healthz" || ep.name == "metadata") {
				closed = true // the signature algorithm is not used on these paths
			}
			if !closed {
				c.issue(Issue{Kind: "violation", What: fmt.Sprintf("request does not end in an error reply after the fault (reply %s, HTTP %d)", outcome, rep.Code), Site: ep.name, Class: "not-closed:" + cls, Detail: detail})
			}
			// an error status does not close the reply by itself: nothing that follows the error text may be a SAML message
			if rep.Code >= 400 {
				leaked := ""
				if strings.Contains(rep.Body, "<form") {
					if f, ferr := parseForms(rep.Body); ferr == nil || f.Fields != nil {
						if raw, berr := base64.StdEncoding.DecodeString(f.Fields["SAMLResponse"]); berr == nil && len(raw) > 0 {
							if m, merr := parseMsg(raw); merr == nil && m != nil && (m.Status == provider.StatusCodeSuccess || m.NameID != "" || len(m.Attrs) > 0) {
								leaked = "an auto-submit form with a " + statusShort(m.Status) + " SAMLResponse (NameID " + m.NameID + ")"
							}
						}
					}
				}
				if leaked == "" && (strings.Contains(rep.Body, "Assertion") || strings.Contains(rep.Body, "AttributeStatement")) {
					leaked = "assertion markup"
				}
				if leaked != "" {
					detail["body_prefix"] = rep.Body[:min(400, len(rep.Body))]
					c.issue(Issue{Kind: "violation", What: "the HTTP error reply after the fault is followed by " + leaked, Site: ep.name, Class: "message-after-error:" + cls, Detail: detail})
				}
			}
			if d.Msg != nil && (d.Msg.NameID != "" || len(d.Msg.Attrs) > 0) {
				c.issue(Issue{Kind: "violation", What: "user data in the reply after a fault", Site: ep.name, Class: "user-data:" + cls, Detail: detail})
			}
			if strings.HasPrefix(ep.name, "metadata") && rep.Code == 200 && strings.Contains(rep.Body, "SignatureValue") && reached >= 0 {
				c.issue(Issue{Kind: "violation", What: "signed metadata served after a key fault", Site: ep.name, Class: "signed-metadata:" + cls, Detail: detail})
			}
			if reached >= 0 {
				for _, call := range st.Calls[reached+1:] {
					if call.Op == "CreateAuthRequest" && !call.Err {
						c.issue(Issue{Kind: "violation", What: "request persisted after a storage fault", Site: ep.name, Class: "persist-after-fault:" + cls, Detail: detail})
					}
				}
			}
		}
		for _, f := range sites {
			run([]faultSpec{f}, false)
		}
		for i, f := range sites {
			for _, g := range sites[i+1:] {
				if f.Op == g.Op && f.Occ == g.Occ {
					continue
				}
				run([]faultSpec{f, g}, false)
			}
		}
		run(nil, true)
	}
}
