package main

// C15 — concurrent requests are isolated, race-free and get unique message IDs.
//
// Two generators, both over a world described as pure data (service providers, stored requests, users, key
// generation, issuer derived from the Host header) from which a storage and a provider can be (re)built at will:
//
//  (a) history differential ("reuse"): one long-lived provider + storage serves a random history of requests on all
//      endpoints, interleaved with changes of the stored data (re-registration of an application under another
//      entity ID, key rotation, completed logins, transient key faults).  Every request is also served by a world
//      freshly built from the same data.  The two replies must have the same canonical summary: a reply is determined
//      by its own request and the records it names, not by what the provider instance (or a ServiceProvider object it
//      was handed before) saw earlier.
//  (b) concurrent clients: N goroutines, each its own session with unique markers in request ID, RelayState, consumer
//      URL, audience, Host and user attributes, all endpoints mixed, optionally with clients that stall while the
//      reply is being written.  Each reply must equal the summary of the same request served alone, carry no marker of
//      another session, and all message IDs must be pairwise distinct xs:ID values.  With the race-instrumented build
//      (`corr-race`) the runner fails the check on any report of the race detector.

import (
	"crypto/rsa"
	"crypto/x509"
	"encoding/base64"
	"encoding/pem"
	"fmt"
	"io"
	"net/http"
	"net/http/httptest"
	"net/url"
	"regexp"
	"runtime"
	"sort"
	"strings"
	"sync"
	"time"

	"github.com/google/uuid"

	"github.com/zitadel/saml/pkg/provider"
	"github.com/zitadel/saml/pkg/provider/key"
)

func init() {
	props["C15"] = runC15
	props["reuse"] = func(c *Ctx) {
		c.rep.Rule = "history differential only (hunt for a reply that depends on the provider's history)"
		c15Reuse(c, 4)
	}
}

// ---- the world as data

type wSP struct {
	Entity string
	App    string
	Acs    []AcsEntry
	Gen    int // bumped on every (re)registration: the storage hands out a new ServiceProvider object
}

type WorldSpec struct {
	SPs     []*wSP
	Recs    map[string]*AuthReq
	Users   map[string]*User
	KeyGen  int // index into c15Keys
	KeyFail int // number of upcoming GetResponseSigningKey calls that fail
	// the last genuinely signed SSO request per service provider: (SAMLRequest, Signature, host) - for replays
	LastSigned map[int][3]string
}

var c15Keys []*KeyPair

func c15InitKeys() {
	initKeys()
	if c15Keys == nil {
		c15Keys = []*KeyPair{idpKeys, genRSA("idp-rotated")}
	}
}

func c15Cfg() IdpCfg {
	// issuer derived from the request host: the Host header is request data
	return IdpCfg{Issuer: "", IssuerPath: "/saml", SigAlg: algRSASHA256}
}

func (w *WorldSpec) spSpec(s *wSP) SPSpec {
	return SPSpec{EntityID: s.Entity, AppID: s.App, ReqSigned: "-", Certs: []string{spKeys.B64}, Acs: s.Acs, Slo: []string{"https://" + hostOf(s.Entity) + "/slo"}}
}

func hostOf(u string) string {
	if p, err := url.Parse(u); err == nil {
		return p.Host
	}
	return "sp.example.com"
}

// build: a storage and a provider holding exactly the data of the spec
func (w *WorldSpec) build() (*Storage, *provider.Provider, error) {
	st := newStorage()
	w.applyKey(st)
	for _, s := range w.SPs {
		if err := st.Register(w.spSpec(s)); err != nil {
			return nil, nil, err
		}
	}
	for id, r := range w.Recs {
		cp := *r
		st.Reqs[id] = &cp
	}
	st.nextID = 100000 + len(w.Recs) // identifiers of new records never collide with records of the world
	copies := map[*User]*User{}
	for id, u := range w.Users {
		if copies[u] == nil {
			cp := *u
			copies[u] = &cp
		}
		st.Users[id] = copies[u]
	}
	prov, err := newProvider(st, c15Cfg())
	return st, prov, err
}

func (w *WorldSpec) applyKey(st *Storage) {
	kp := c15Keys[w.KeyGen%len(c15Keys)]
	st.RespKey = &key.CertificateAndKey{Key: kp.Key, Certificate: kp.Cert}
	st.MetaKey = st.RespKey
}

func (w *WorldSpec) cert() *x509.Certificate {
	c, err := x509.ParseCertificate(c15Keys[w.KeyGen%len(c15Keys)].Cert)
	if err != nil {
		panic(err)
	}
	return c
}

// ---- requests

type c15Req struct {
	Kind    string // sso | cb | aq | slo | md | cert
	Host    string
	SP      int
	Marker  string // unique per session
	RecID   string // cb
	Variant string
	HTTP    HTTPReq
}

func c15Hosts() []string {
	return []string{"idp-a.example.com", "idp-b.example.org:8443", "idp-c.example.net"}
}

func issuerFor(host string) string { return "https://" + host + "/saml" }

// mkSSO builds an unsigned or signed Redirect-binding AuthnRequest.  variant: "plain" | "dest-own" | "dest-other" |
// "signed" | "signed-relay-swapped" | "bind-post" | "bind-unlisted"
func (w *WorldSpec) mkSSO(host string, spi int, marker, variant string, hosts []string) c15Req {
	sp := w.SPs[spi%len(w.SPs)]
	now := time.Now()
	a := AuthnSpec{ID: "_req-" + marker, Version: "2.0", IssueInstant: now.UTC().Format("2006-01-02T15:04:05Z"), Destination: "-", ProtocolBinding: "-",
		AcsURL: "-", AcsIndex: "-", Issuer: sp.Entity, NotBefore: "-", NotOnOrAfter: "-"}
	relay := "rs-" + marker
	switch variant {
	case "dest-own":
		a.Destination = issuerFor(host) + "/SSO"
	case "dest-other":
		other := hosts[0]
		if other == host {
			other = hosts[1]
		}
		a.Destination = issuerFor(other) + "/SSO"
	case "bind-post":
		a.ProtocolBinding = provider.PostBinding
	case "bind-unlisted":
		a.ProtocolBinding = "urn:example:unlisted"
	}
	payload := deflateB64(a.XML())
	q := url.Values{"SAMLRequest": {payload}, "RelayState": {relay}}
	if variant == "signed-replay-swapped" {
		// an earlier, genuinely signed and accepted request is replayed with another RelayState
		if ls, ok := w.LastSigned[spi%len(w.SPs)]; ok {
			q = url.Values{"SAMLRequest": {ls[0]}, "RelayState": {"rs-replayed-" + marker}, "SigAlg": {algRSASHA256}, "Signature": {ls[1]}}
			return c15Req{Kind: "sso", Host: ls[2], SP: spi, Marker: marker, Variant: variant, HTTP: HTTPReq{Method: "GET", Path: "/SSO", Host: ls[2], Query: q.Encode()}}
		}
		variant = "signed"
	}
	if variant == "signed" || variant == "signed-relay-swapped" {
		_, sig := signRedirect(spKeys.Key, payload, relay, algRSASHA256, 0)
		if variant == "signed" {
			if w.LastSigned == nil {
				w.LastSigned = map[int][3]string{}
			}
			w.LastSigned[spi%len(w.SPs)] = [3]string{payload, sig, host}
		}
		if variant == "signed-relay-swapped" {
			relay = "rs-swapped-" + marker
		}
		q = url.Values{"SAMLRequest": {payload}, "RelayState": {relay}, "SigAlg": {algRSASHA256}, "Signature": {sig}}
	}
	return c15Req{Kind: "sso", Host: host, SP: spi, Marker: marker, Variant: variant, HTTP: HTTPReq{Method: "GET", Path: "/SSO", Host: host, Query: q.Encode()}}
}

func (w *WorldSpec) mkCB(host, recID, marker string) c15Req {
	return c15Req{Kind: "cb", Host: host, RecID: recID, Marker: marker, HTTP: HTTPReq{Method: "GET", Path: "/login", Host: host, Query: "id=" + url.QueryEscape(recID)}}
}

func (w *WorldSpec) mkAQ(host string, spi int, subject, marker string) c15Req {
	sp := w.SPs[spi%len(w.SPs)]
	q := fmt.Sprintf(`<samlp:AttributeQuery xmlns:samlp="%s" xmlns:saml="%s" ID="_aq-%s" Version="2.0" IssueInstant="%s" Destination="%s"><saml:Issuer>%s</saml:Issuer><saml:Subject><saml:NameID>%s</saml:NameID></saml:Subject></samlp:AttributeQuery>`,
		nsProtocol, nsAssertion, marker, time.Now().UTC().Format("2006-01-02T15:04:05Z"), issuerFor(host)+"/attribute", xmlAttrEsc(sp.Entity), xmlAttrEsc(subject))
	body := `<soap:Envelope xmlns:soap="http://schemas.xmlsoap.org/soap/envelope/"><soap:Body>` + q + `</soap:Body></soap:Envelope>`
	return c15Req{Kind: "aq", Host: host, SP: spi, Marker: marker, HTTP: HTTPReq{Method: "POST", Path: "/attribute", Host: host, Body: body, CType: "text/xml"}}
}

func (w *WorldSpec) mkSLO(host string, spi int, marker string) c15Req {
	sp := w.SPs[spi%len(w.SPs)]
	doc := fmt.Sprintf(`<samlp:LogoutRequest xmlns:samlp="%s" xmlns:saml="%s" ID="_lo-%s" Version="2.0" IssueInstant="%s"><saml:Issuer>%s</saml:Issuer><saml:NameID>user-%s</saml:NameID></samlp:LogoutRequest>`,
		nsProtocol, nsAssertion, marker, time.Now().Add(-time.Minute).UTC().Format("2006-01-02T15:04:05Z"), xmlAttrEsc(sp.Entity), marker)
	form := url.Values{"SAMLRequest": {plainB64(doc)}, "RelayState": {"rs-" + marker}}
	return c15Req{Kind: "slo", Host: host, SP: spi, Marker: marker, HTTP: HTTPReq{Method: "POST", Path: "/SLO", Host: host, Body: form.Encode(), CType: "application/x-www-form-urlencoded"}}
}

func mkPlain(kind, host string) c15Req {
	p := map[string]string{"md": "/metadata", "cert": "/certificate"}[kind]
	return c15Req{Kind: kind, Host: host, HTTP: HTTPReq{Method: "GET", Path: p, Host: host}}
}

// ---- canonical summary of a reply

var c15IDRe = regexp.MustCompile(`^_[0-9a-f]{8}-[0-9a-f]{4}-[0-9a-f]{4}-[0-9a-f]{4}-[0-9a-f]{12}$`)

type c15Summary struct {
	Text string
	IDs  []string // message / assertion / metadata IDs seen
}

func summarize(rq c15Req, rep Reply, cert *x509.Certificate) c15Summary {
	var s c15Summary
	var b strings.Builder
	if rep.Panicked {
		s.Text = "panic " + panicSite(rep.PanicMsg)
		return s
	}
	switch rq.Kind {
	case "md":
		d := parseMetadata(rep.Body)
		fmt.Fprintf(&b, "md code=%d entity=%s sso=%v slo=%v attr=%v want=%s certs=%d signed=%v wf=%v", rep.Code, d.EntityID, d.SSO, d.SLO, d.Attr, d.Want, len(d.Certs), d.Signed, d.WellFormed)
		if len(d.Certs) > 0 {
			fmt.Fprintf(&b, " cert-is-current=%v", strings.Join(strings.Fields(d.Certs[0]), "") == base64.StdEncoding.EncodeToString(cert.Raw))
		}
		if m := regexp.MustCompile(` ID="([^"]*)"`).FindStringSubmatch(rep.Body); m != nil {
			s.IDs = append(s.IDs, m[1])
		}
		// KeyName and other texts carry the issuer: keep every text/attribute that mentions a host
		for _, h := range regexp.MustCompile(`https://[A-Za-z0-9.:-]+`).FindAllString(rep.Body, -1) {
			if !strings.Contains(b.String(), h) {
				fmt.Fprintf(&b, " mentions=%s", h)
			}
		}
		s.Text = b.String()
		return s
	case "cert":
		blk, _ := pem.Decode([]byte(rep.Body))
		fmt.Fprintf(&b, "cert code=%d current=%v", rep.Code, blk != nil && string(blk.Bytes) == string(cert.Raw))
		s.Text = b.String()
		return s
	}
	d := classify(rep)
	fmt.Fprintf(&b, "%s code=%d kind=%s", rq.Kind, rep.Code, d.Kind)
	switch d.Kind {
	case "login303":
		// the storage assigns the identifier: canonicalise it
		t := d.Target
		if i := strings.Index(t, "authRequestID="); i >= 0 {
			t = t[:i] + "authRequestID=#"
		}
		fmt.Fprintf(&b, " target=%s", t)
	case "http-error":
		fmt.Fprintf(&b, " body=%q", strings.TrimSpace(rep.Body))
	default:
		fmt.Fprintf(&b, " target=%s relay=%s err=%s", d.Target, d.Relay, d.Err)
	}
	if m := d.Msg; m != nil {
		var attrs []string
		for _, a := range m.Attrs {
			attrs = append(attrs, attrKey(a))
		}
		sort.Strings(attrs)
		fmt.Fprintf(&b, " msg=%s/%s status=%s msgtext=%q irt=%s dest=%s issuer=%s aissuer=%s nameid=%s aud=%v sc=%s/%s attrs=%v signed=%v docs=%d",
			m.Root, m.Inner, statusShort(m.Status), m.StatusMessage, m.InResponseTo, m.Destination, m.Issuer, m.AssertIssuer, m.NameID, m.Audiences, m.SCInResponse, m.SCRecipient, attrs, m.AssertSigned, m.Docs)
		if m.ID != "" {
			s.IDs = append(s.IDs, m.ID)
		}
		if m.AssertionID != "" {
			s.IDs = append(s.IDs, m.AssertionID)
		}
		if m.AssertSigned {
			ok := verifyEnvelopedIndependently(d.MsgBytes, "Assertion", cert) == nil
			clean, _, _ := predictEnveloped(d.MsgBytes, "Assertion")
			fmt.Fprintf(&b, " sig-ok-under-current-key=%v", ok || !clean)
		}
		if d.Kind == "redirect" && d.Sig != "" {
			v, err := redirectReconstruct(d.RawQuery)
			fmt.Fprintf(&b, " redirect-sig-ok-under-current-key=%v", err == nil && v.rsaVerify(cert.PublicKey.(*rsa.PublicKey)) == nil)
		}
	}
	s.Text = b.String()
	return s
}

// ---- (a) history differential

type c15Op struct {
	Mut  string  `json:"mutation,omitempty"`
	Req  *c15Req `json:"request,omitempty"`
	Desc string  `json:"desc"`
}

type longWorld struct {
	spec WorldSpec
	st   *Storage
	prov *provider.Provider
}

func newSpec(rng *Rng) WorldSpec {
	w := WorldSpec{Recs: map[string]*AuthReq{}, Users: map[string]*User{}}
	w.SPs = []*wSP{
		{Entity: "https://sp-one.example.com/metadata", App: "app-1", Acs: []AcsEntry{{"2", "", provider.PostBinding, "https://sp-one.example.com/acs"}, {"1", "", provider.PostBinding, "https://sp-one.example.com/acs-secondary"}, {"3", "", provider.RedirectBinding, "https://sp-one.example.com/acs-redirect"}}},
		{Entity: "https://sp-two.example.org/metadata", App: "app-2", Acs: []AcsEntry{{"0", "", provider.RedirectBinding, "https://sp-two.example.org/acs"}}},
	}
	for i, n := range []string{"alice", "bob", "carol"} {
		u := &User{Email: n + "@example.com", FullName: strings.ToUpper(n[:1]) + n[1:] + " Example", GivenName: n, Surname: "Example", UserID: fmt.Sprintf("uid-%d", i+1), Username: n,
			Custom: []CustomAttr{{Name: "groups", Friendly: "Groups", Format: "urn:oasis:names:tc:SAML:2.0:attrname-format:basic", Values: []string{"grp-" + n, "all"}}}}
		w.Users[u.UserID] = u
		w.Users[n] = u
	}
	// two stored requests from earlier: one completed, one pending
	w.Recs["ar-done"] = &AuthReq{ID: "ar-done", AppID: "app-1", UserID: "uid-1", ReqID: "_req-earlier-1", Issuer: w.SPs[0].Entity, Relay: "rs-earlier-1", Acs: "https://sp-one.example.com/acs", Binding: provider.PostBinding, IsDone: true}
	w.Recs["ar-done-redirect"] = &AuthReq{ID: "ar-done-redirect", AppID: "app-2", UserID: "uid-2", ReqID: "_req-earlier-2", Issuer: w.SPs[1].Entity, Relay: "rs-earlier-2", Acs: "https://sp-two.example.org/acs", Binding: provider.RedirectBinding, IsDone: true}
	w.Recs["ar-pending"] = &AuthReq{ID: "ar-pending", AppID: "app-1", UserID: "uid-3", ReqID: "_req-earlier-3", Issuer: w.SPs[0].Entity, Relay: "rs-earlier-3", Acs: "https://sp-one.example.com/acs", Binding: provider.PostBinding}
	return w
}

func (lw *longWorld) mutate(m string) {
	w := &lw.spec
	switch {
	case m == "rotate-key":
		w.KeyGen++
		w.applyKey(lw.st)
	case m == "key-fault-next":
		w.KeyFail = 1
	case strings.HasPrefix(m, "reregister:"):
		// the application moves to another entity ID (and the storage hands out a new ServiceProvider object)
		var i int
		fmt.Sscanf(m, "reregister:%d", &i)
		s := w.SPs[i%len(w.SPs)]
		old := s.Entity
		s.Gen++
		s.Entity = fmt.Sprintf("https://%s/metadata-v%d", hostOf(old), s.Gen)
		delete(lw.st.SPs, old)
		_ = lw.st.Register(w.spSpec(s))
		for _, r := range w.Recs {
			if r.AppID == s.App {
				r.Issuer = s.Entity
			}
		}
		for _, r := range lw.st.Reqs {
			if r.AppID == s.App {
				r.Issuer = s.Entity
			}
		}
	case strings.HasPrefix(m, "complete:"):
		id := strings.TrimPrefix(m, "complete:")
		if r := w.Recs[id]; r != nil {
			r.IsDone = true
		}
		if r := lw.st.Reqs[id]; r != nil {
			r.IsDone = true
		}
	case strings.HasPrefix(m, "failed-write:"):
		// a client goes away while its auto-submit page / body is being written: serve a reply on the long-lived provider
		// through a writer that accepts a few bytes and then fails.  Nothing of it may surface in later replies.
		var cut int
		var id string
		fmt.Sscanf(m, "failed-write:%d:%s", &cut, &id)
		rec := httptest.NewRecorder()
		fw := &failingWriter{ResponseRecorder: rec, left: cut}
		serveOn(lw.prov.HttpHandler(), HTTPReq{Method: "GET", Path: "/login", Host: "idp-a.example.com", Query: "id=" + url.QueryEscape(id)}, fw, rec)
	case strings.HasPrefix(m, "rename-user:"):
		id := strings.TrimPrefix(m, "rename-user:")
		for _, tbl := range []map[string]*User{w.Users, lw.st.Users} {
			if u := tbl[id]; u != nil {
				u.Surname = u.Surname + "-renamed" // one object under user ID and login name
			}
		}
	}
}

// serveBoth serves the request on the long-lived world and on a freshly built one and returns both summaries.
func (lw *longWorld) serveBoth(rq c15Req) (long, fresh c15Summary, err error) {
	w := &lw.spec
	fst, fprov, err := w.build()
	if err != nil {
		return long, fresh, err
	}
	if w.KeyFail > 0 {
		for i := 1; i <= 6; i++ {
			lw.st.Fail("GetResponseSigningKey", lw.st.CountOf("GetResponseSigningKey")+i)
			fst.Fail("GetResponseSigningKey", i)
		}
		w.KeyFail = 0
		defer func() { lw.st.Faults = map[string]map[int]bool{} }()
	}
	before := map[string]bool{}
	for id := range lw.st.Reqs {
		before[id] = true
	}
	fbefore := map[string]bool{}
	for id := range fst.Reqs {
		fbefore[id] = true
	}
	lrep := serve(lw.prov.HttpHandler(), rq.HTTP)
	frep := serve(fprov.HttpHandler(), rq.HTTP)
	cert := w.cert()
	long, fresh = summarize(rq, lrep, cert), summarize(rq, frep, cert)
	// what the SSO endpoint persisted is part of the outcome (the reply only carries the identifier)
	persisted := func(st *Storage, old map[string]bool) string {
		var out []string
		for id, r := range st.Reqs {
			if !old[id] {
				out = append(out, fmt.Sprintf("%s|%s|%s|%s|%s", r.Acs, r.Binding, r.Relay, r.AppID, r.ReqID))
			}
		}
		sort.Strings(out)
		return " persisted=" + strings.Join(out, ",")
	}
	long.Text += persisted(lw.st, before)
	fresh.Text += persisted(fst, fbefore)
	// records the SSO endpoint persisted become part of the world
	for id, r := range lw.st.Reqs {
		if !before[id] {
			cp := *r
			w.Recs[id] = &cp
		}
	}
	return long, fresh, nil
}

func c15RandomOp(rng *Rng, w *WorldSpec, n int) c15Op {
	hosts := c15Hosts()
	host := hosts[rng.intn(len(hosts))]
	marker := fmt.Sprintf("m%04d", n)
	if rng.chance(22) {
		muts := []string{"rotate-key", "key-fault-next", fmt.Sprintf("reregister:%d", rng.intn(2)), "rename-user:uid-1",
			fmt.Sprintf("failed-write:%d:ar-done", []int{0, 300, 700}[rng.intn(3)])}
		var pend []string
		for id, r := range w.Recs {
			if !r.IsDone {
				pend = append(pend, id)
			}
		}
		sort.Strings(pend)
		if len(pend) > 0 {
			muts = append(muts, "complete:"+pend[rng.intn(len(pend))])
		}
		m := muts[rng.intn(len(muts))]
		return c15Op{Mut: m, Desc: m}
	}
	var rq c15Req
	switch k := rng.intn(10); {
	case k < 4:
		v := []string{"plain", "dest-own", "dest-other", "signed", "signed-relay-swapped", "bind-post", "bind-unlisted", "signed-replay-swapped", "signed"}[rng.intn(9)]
		rq = w.mkSSO(host, rng.intn(2), marker, v, hosts)
	case k < 6:
		var ids []string
		for id := range w.Recs {
			ids = append(ids, id)
		}
		sort.Strings(ids)
		rq = w.mkCB(host, ids[rng.intn(len(ids))], marker)
	case k < 7:
		rq = w.mkAQ(host, rng.intn(2), []string{"alice", "bob", "carol"}[rng.intn(3)], marker)
	case k < 8:
		rq = w.mkSLO(host, rng.intn(2), marker)
	case k < 9:
		rq = mkPlain("md", host)
	default:
		rq = mkPlain("cert", host)
	}
	d := rq.Kind + " host=" + rq.Host
	if rq.Variant != "" {
		d += " " + rq.Variant
	}
	if rq.RecID != "" {
		d += " id=" + rq.RecID
	}
	if rq.Kind == "sso" || rq.Kind == "aq" || rq.Kind == "slo" {
		d += fmt.Sprintf(" sp=%d", rq.SP)
	}
	return c15Op{Req: &rq, Desc: d}
}

// replayHistory runs ops from scratch and returns the index and summaries of the first divergence (-1 if none).
func replayHistory(seed uint64, ops []c15Op) (int, string, string) {
	lw := &longWorld{spec: newSpec(nil)}
	var err error
	lw.st, lw.prov, err = lw.spec.build()
	if err != nil {
		return -2, err.Error(), ""
	}
	for i, op := range ops {
		if op.Mut != "" {
			lw.mutate(op.Mut)
			continue
		}
		// signed requests are re-created against the current world (entity IDs may have changed)
		rq := *op.Req
		l, f, err := lw.serveBoth(rq)
		if err != nil {
			return -2, err.Error(), ""
		}
		if l.Text != f.Text {
			return i, l.Text, f.Text
		}
	}
	return -1, "", ""
}

func c15Reuse(c *Ctx, scale int) {
	c15InitKeys()
	nHist, length := 6*scale, 40
	if c.thorough() {
		nHist, length = 60*scale, 60
	}
	for h := 0; h < nHist; h++ {
		rng := c.rng.fork()
		spec := newSpec(rng)
		// generate the history against an evolving copy of the world so that request contents are fixed data
		lw := &longWorld{spec: spec}
		var err error
		lw.st, lw.prov, err = lw.spec.build()
		if err != nil {
			c.issue(Issue{Kind: "disagreement", What: "world construction failed: " + err.Error(), Site: "c15"})
			return
		}
		var ops []c15Op
		diverged := false
		for n := 0; n < length && !diverged; n++ {
			op := c15RandomOp(rng, &lw.spec, n)
			ops = append(ops, op)
			if op.Mut != "" {
				lw.mutate(op.Mut)
				c.hist("history-op", "mutation:"+strings.SplitN(op.Mut, ":", 2)[0])
				continue
			}
			c.rep.Evaluations++
			c.hist("history-op", op.Req.Kind)
			l, f, err := lw.serveBoth(*op.Req)
			if err != nil {
				c.issue(Issue{Kind: "disagreement", What: "fresh world construction failed: " + err.Error(), Site: "c15"})
				return
			}
			c.nontrivial("hist|" + op.Desc)
			if l.Text != f.Text {
				diverged = true
				// shrink: drop operations while the last request still diverges
				min := append([]c15Op{}, ops...)
				for i := len(min) - 2; i >= 0; i-- {
					cand := append(append([]c15Op{}, min[:i]...), min[i+1:]...)
					if idx, _, _ := replayHistory(c.seed, cand); idx == len(cand)-1 {
						min = cand
					}
				}
				_, l2, f2 := replayHistory(c.seed, min)
				if l2 == "" {
					l2, f2 = l.Text, f.Text
				}
				var descs []string
				for _, o := range min {
					descs = append(descs, o.Desc)
				}
				c.issue(Issue{Kind: "violation", What: "a reply depends on what the provider instance served before: the same request against the same stored data is answered differently by a long-lived provider and by a fresh one",
					Site: "provider-history", Class: op.Req.Kind + ":" + diffField(l2, f2),
					Detail: map[string]interface{}{"history": descs, "ops": min, "long_lived_reply": l2, "fresh_reply": f2}})
			}
		}
		if h%5 == 0 {
			var descs []string
			for _, o := range ops {
				descs = append(descs, o.Desc)
			}
			if len(descs) > 8 {
				descs = descs[:8]
			}
			c.sample(map[string]interface{}{"history_prefix": descs, "length": len(ops), "diverged": diverged})
		}
	}
}

// diffField names the first field in which two summaries differ (stable class for known-finding matching)
func diffField(a, b string) string {
	fa, fb := strings.Fields(a), strings.Fields(b)
	for i := 0; i < len(fa) && i < len(fb); i++ {
		if fa[i] != fb[i] {
			return strings.SplitN(fa[i], "=", 2)[0]
		}
	}
	return "length"
}

// ---- (b) concurrent clients

// stallWriter lets the handler's Write block until released (a slow client), then records like a ResponseRecorder.
type stallWriter struct {
	*httptest.ResponseRecorder
	gate  chan struct{}
	first sync.Once
	hit   chan struct{}
}

func (s *stallWriter) Write(b []byte) (int, error) {
	s.first.Do(func() {
		close(s.hit)
		<-s.gate
	})
	return s.ResponseRecorder.Write(b)
}

// failingWriter accepts `left` bytes and then reports a closed connection
type failingWriter struct {
	*httptest.ResponseRecorder
	left int
}

func (f *failingWriter) Write(b []byte) (int, error) {
	if f.left <= 0 {
		return 0, io.ErrClosedPipe
	}
	if len(b) > f.left {
		n, _ := f.ResponseRecorder.Write(b[:f.left])
		f.left = 0
		return n, io.ErrClosedPipe
	}
	f.left -= len(b)
	return f.ResponseRecorder.Write(b)
}

func serveOn(h http.Handler, r HTTPReq, w http.ResponseWriter, rec *httptest.ResponseRecorder) (rep Reply) {
	target := r.Path
	if r.Query != "" {
		target += "?" + r.Query
	}
	req := httptest.NewRequest(r.Method, "https://"+r.Host+target, strings.NewReader(r.Body))
	req.Host = r.Host
	if r.CType != "" {
		req.Header.Set("Content-Type", r.CType)
	}
	func() {
		defer func() {
			if x := recover(); x != nil {
				rep.Panicked = true
				rep.PanicMsg = fmt.Sprint(x)
			}
		}()
		h.ServeHTTP(w, req)
	}()
	rep.Code = rec.Code
	rep.Location = rec.Header().Get("Location")
	rep.Body = rec.Body.String()
	rep.CType = rec.Header().Get("Content-Type")
	return rep
}

func c15Concurrent(c *Ctx, n int, stall bool) {
	c15InitKeys()
	rng := c.rng.fork()
	spec := newSpec(rng)
	hosts := c15Hosts()
	// per-session data: own SP (own consumer URL and audience), own user, own stored request
	var reqs []c15Req
	spec.SPs = nil
	for i := 0; i < n; i++ {
		m := fmt.Sprintf("zq-%03d-qz", i)
		sp := &wSP{Entity: "https://sp-" + m + ".example.com/metadata", App: "app-" + m,
			Acs: []AcsEntry{{"1", "", provider.PostBinding, "https://sp-" + m + ".example.com/acs"}, {"2", "", provider.RedirectBinding, "https://sp-" + m + ".example.com/acs-r"}}}
		spec.SPs = append(spec.SPs, sp)
		u := &User{Email: m + "@users.example", FullName: "Full " + m, GivenName: "Given-" + m, Surname: "Sur-" + m, UserID: "uid-" + m, Username: "login-" + m,
			Custom: []CustomAttr{{Name: "marker", Friendly: "Marker", Format: "urn:oasis:names:tc:SAML:2.0:attrname-format:basic", Values: []string{"attr-" + m}}}}
		spec.Users[u.UserID], spec.Users[u.Username] = u, u
		bind := provider.PostBinding
		acs := "https://sp-" + m + ".example.com/acs"
		if i%3 == 1 {
			bind, acs = provider.RedirectBinding, "https://sp-"+m+".example.com/acs-r"
		}
		if i%7 == 3 {
			acs = "" // delivered in the HTTP body
		}
		spec.Recs["ar-"+m] = &AuthReq{ID: "ar-" + m, AppID: sp.App, UserID: u.UserID, ReqID: "_req-" + m, Issuer: sp.Entity, Relay: "rs-" + m, Acs: acs, Binding: bind, IsDone: i%5 != 4}
	}
	for i := 0; i < n; i++ {
		m := fmt.Sprintf("zq-%03d-qz", i)
		host := fmt.Sprintf("idp-%s.%s", m, []string{"example.com", "example.org:8443"}[i%2])
		switch i % 6 {
		case 0:
			reqs = append(reqs, spec.mkSSO(host, i, m, "plain", hosts))
		case 1:
			reqs = append(reqs, spec.mkCB(host, "ar-"+m, m))
		case 2:
			reqs = append(reqs, spec.mkAQ(host, i, "login-"+m, m))
		case 3:
			reqs = append(reqs, spec.mkSLO(host, i, m))
		case 4:
			reqs = append(reqs, spec.mkSSO(host, i, m, "unknown-issuer", hosts))
			reqs[len(reqs)-1] = unknownIssuerSSO(host, m)
		default:
			if i%12 == 5 {
				reqs = append(reqs, mkPlain("md", host))
			} else {
				reqs = append(reqs, spec.mkCB(host, "ar-"+m, m))
			}
		}
		reqs[len(reqs)-1].Marker = m
	}
	cert := spec.cert()
	// each request alone, on its own freshly built world
	alone := make([]c15Summary, len(reqs))
	for i, rq := range reqs {
		_, prov, err := spec.build()
		if err != nil {
			c.issue(Issue{Kind: "disagreement", What: "world construction failed: " + err.Error(), Site: "c15"})
			return
		}
		alone[i] = summarize(rq, serve(prov.HttpHandler(), rq.HTTP), cert)
	}
	// all together on one provider
	_, prov, err := spec.build()
	if err != nil {
		return
	}
	h := prov.HttpHandler()
	got := make([]c15Summary, len(reqs))
	raw := make([]Reply, len(reqs))
	var wg sync.WaitGroup
	start := make(chan struct{})
	gate := make(chan struct{})
	var stalled []chan struct{}
	for i := range reqs {
		wg.Add(1)
		rec := httptest.NewRecorder()
		var w http.ResponseWriter = rec
		if stall && i%4 == 0 {
			sw := &stallWriter{ResponseRecorder: rec, gate: gate, hit: make(chan struct{})}
			w = sw
			stalled = append(stalled, sw.hit)
		}
		go func(i int, w http.ResponseWriter, rec *httptest.ResponseRecorder) {
			defer wg.Done()
			<-start
			raw[i] = serveOn(h, reqs[i].HTTP, w, rec)
		}(i, w, rec)
	}
	close(start)
	if stall {
		// wait until the stalled clients sit in Write (or finished without writing), let the others run, then release
		for _, hit := range stalled {
			select {
			case <-hit:
			case <-time.After(2 * time.Second):
			}
		}
		for k := 0; k < 50; k++ {
			runtime.Gosched()
		}
		time.Sleep(20 * time.Millisecond)
		close(gate)
	}
	wg.Wait()
	allIDs := map[string]int{}
	for i, rq := range reqs {
		got[i] = summarize(rq, raw[i], cert)
		c.rep.Evaluations++
		c.nontrivial(fmt.Sprintf("conc|%d|%v|%s", n, stall, rq.Kind+rq.Variant))
		c.hist("concurrent", rq.Kind)
		detail := map[string]interface{}{"clients": n, "stalled_writers": stall, "request": rq.Kind + " " + rq.Marker, "alone": alone[i].Text, "concurrent": got[i].Text}
		if got[i].Text != alone[i].Text {
			c.issue(Issue{Kind: "violation", What: "a reply served concurrently with other requests differs from the reply to the same request served alone", Site: "concurrent-isolation",
				Class: rq.Kind + ":" + diffField(got[i].Text, alone[i].Text), Detail: detail})
		}
		// no marker of another session anywhere in the raw reply (body, Location, decoded message)
		hay := raw[i].Body + "\n" + raw[i].Location
		if d := classify(raw[i]); d.MsgBytes != nil {
			hay += "\n" + string(d.MsgBytes)
		}
		for j := range reqs {
			if j != i && reqs[j].Marker != "" && strings.Contains(hay, reqs[j].Marker) {
				detail["foreign_marker"] = reqs[j].Marker
				c.issue(Issue{Kind: "violation", What: "a reply carries data of another session (marker " + reqs[j].Marker + " in the reply to session " + rq.Marker + ")", Site: "concurrent-isolation",
					Class: "cross-talk:" + rq.Kind, Detail: detail})
				break
			}
		}
		for _, id := range got[i].IDs {
			allIDs[id]++
			if !c15IDRe.MatchString(id) {
				c.issue(Issue{Kind: "violation", What: "message ID is not '_' + UUID (xs:ID): " + id, Site: "NewID", Class: "id-shape", Detail: detail})
			}
		}
	}
	for id, k := range allIDs {
		if k > 1 {
			c.issue(Issue{Kind: "violation", What: fmt.Sprintf("message ID %s issued %d times", id, k), Site: "NewID", Class: "id-repeated"})
		}
	}
	c.hist("ids", fmt.Sprintf("distinct=%d", len(allIDs)))
}

// c15Tenants: one provider instance, two tenants (Host headers) whose response signing keys differ (the storage picks
// the key by the issuer in the request context), clients of both tenants whose key loads overlap.  Every reply must
// carry the certificate of its own tenant: metadata key descriptors, the /certificate download, the certificate inside
// a signed Response.
func c15Tenants(c *Ctx, n int) {
	c15InitKeys()
	hosts := []string{"tenant-a.example.com", "tenant-b.example.org:8443"}
	keys := map[string]*KeyPair{hosts[0]: c15Keys[0], hosts[1]: c15Keys[1]}
	rng := c.rng.fork()
	spec := newSpec(rng)
	st, prov, err := spec.build()
	if err != nil {
		c.issue(Issue{Kind: "disagreement", What: "world construction failed: " + err.Error(), Site: "c15"})
		return
	}
	st.TenantKeys = map[string]*key.CertificateAndKey{}
	for h, kp := range keys {
		st.TenantKeys[issuerFor(h)] = &key.CertificateAndKey{Key: kp.Key, Certificate: kp.Cert}
	}
	for _, overlap := range []bool{false, true} {
		if overlap {
			st.KeyMeet = newMeeting(2)
		}
		h := prov.HttpHandler()
		kinds := make([]string, n)
		reqHost := make([]string, n)
		raw := make([]Reply, n)
		var wg sync.WaitGroup
		start := make(chan struct{})
		for i := 0; i < n; i++ {
			reqHost[i] = hosts[i%2]
			kinds[i] = []string{"md", "cert", "md"}[(i/2)%3]
			wg.Add(1)
			go func(i int) {
				defer wg.Done()
				<-start
				raw[i] = serve(h, mkPlain(kinds[i], reqHost[i]).HTTP)
			}(i)
		}
		close(start)
		wg.Wait()
		for i := 0; i < n; i++ {
			c.rep.Evaluations++
			c.nontrivial(fmt.Sprintf("tenant|%v|%s|%d", overlap, kinds[i], i%2))
			c.hist("tenants", fmt.Sprintf("%s overlap=%v", kinds[i], overlap))
			own, other := keys[reqHost[i]], keys[hosts[1-i%2]]
			var got string
			switch kinds[i] {
			case "md":
				if d := parseMetadata(raw[i].Body); len(d.Certs) > 0 {
					got = strings.Join(strings.Fields(d.Certs[0]), "")
				}
			case "cert":
				if blk, _ := pem.Decode([]byte(raw[i].Body)); blk != nil {
					got = base64.StdEncoding.EncodeToString(blk.Bytes)
				}
			}
			if got != own.B64 {
				what := "a reply to one tenant does not carry that tenant's response signing certificate"
				cls := "tenant-key:" + kinds[i]
				if got == other.B64 {
					what = "a reply to one tenant carries the response signing certificate of another tenant whose request was served at the same time"
					cls += ":foreign"
				}
				c.issue(Issue{Kind: "violation", What: what, Site: "concurrent-isolation", Class: cls,
					Detail: map[string]interface{}{"clients": n, "overlapping_key_loads": overlap, "request": kinds[i], "host": reqHost[i], "code": raw[i].Code, "own_cert_prefix": own.B64[:24], "got_cert_prefix": firstN(got, 24)}})
			}
		}
	}
}

func firstN(s string, n int) string {
	if len(s) > n {
		return s[:n]
	}
	return s
}

func unknownIssuerSSO(host, m string) c15Req {
	// an AuthnRequest from an unregistered issuer: answered with a failed Response in the HTTP body
	a := AuthnSpec{ID: "_req-" + m, Version: "2.0", IssueInstant: time.Now().UTC().Format("2006-01-02T15:04:05Z"), Destination: "-", ProtocolBinding: "-",
		AcsURL: "-", AcsIndex: "-", Issuer: "https://unknown-" + m + ".example.com/metadata", NotBefore: "-", NotOnOrAfter: "-"}
	q := url.Values{"SAMLRequest": {deflateB64(a.XML())}, "RelayState": {"rs-" + m}}
	return c15Req{Kind: "sso", Host: host, Marker: m, Variant: "unknown-issuer", HTTP: HTTPReq{Method: "GET", Path: "/SSO", Host: host, Query: q.Encode()}}
}

// c15UUID compares the model's rendering of NewID with google/uuid on random values and checks the shape of real NewID() values
func c15UUID(c *Ctx) {
	b := &batch{c: c, site: "lib uuid"}
	n := 2000
	if c.thorough() {
		n = 50000
	}
	for i := 0; i < n; i++ {
		u := uuid.New()
		if i < 4 {
			// corner values
			for j := range u {
				u[j] = []byte{0x00, 0xff, 0x0a, 0xa0}[i]
			}
		}
		raw := append([]byte{}, u[:]...)
		b.add("lib uuid "+tokBytes(raw), tokStr("_"+u.String())+" 1", func() map[string]interface{} { return map[string]interface{}{"bytes": fmt.Sprintf("%x", raw)} })
		c.rep.Evaluations++
	}
	b.flush()
	seen := map[string]bool{}
	for i := 0; i < n; i++ {
		id := provider.NewID()
		if !c15IDRe.MatchString(id) || seen[id] {
			c.issue(Issue{Kind: "violation", What: "NewID() returned a value that is not '_' + canonical UUID, or repeated one: " + id, Site: "NewID", Class: "id-shape"})
			break
		}
		seen[id] = true
	}
}

func runC15(c *Ctx) {
	c15InitKeys()
	c15UUID(c)
	c.rep.Rule = "(a) history differential: random histories of requests on all endpoints (3 Host headers, 2 service providers, signed / unsigned / replayed-with-swapped-RelayState SSO requests, callbacks for completed and pending records, attribute queries, logout, metadata, certificate) interleaved with storage changes (key rotation, transient key fault, re-registration of an application under another entity ID, completion, user change) on ONE long-lived provider, each request also served by a world freshly built from the same data - summaries must agree; (b) N concurrent clients (N = 2, 16, 64; thorough also 256) each with its own session, service provider, Host and user, all endpoints mixed, with and without clients that stall inside Write: reply = reply alone, no foreign marker, all IDs distinct '_'+UUID; (c) two tenants (Host headers) with different response signing keys in a context-dependent storage, 16 clients whose key loads overlap (a meeting point inside GetResponseSigningKey): metadata and /certificate replies carry the own tenant's certificate. Non-trivial = request served; distinct = (generator, request kind / variant). Built with -race in the check: any race report fails it."
	c15Reuse(c, 1)
	ns := []int{2, 16, 64}
	if c.thorough() {
		ns = append(ns, 256)
	}
	rounds := 2
	if c.thorough() {
		rounds = 10
	}
	for r := 0; r < rounds; r++ {
		for _, n := range ns {
			c15Concurrent(c, n, false)
			c15Concurrent(c, n, true)
		}
		c15Tenants(c, 16)
	}
}
