package main

import (
	"fmt"
	"sort"
	"strings"

	"github.com/zitadel/saml/pkg/provider"
)

func init() { cbModelCompare = cbCompare }

func strList(xs []string) []string {
	out := []string{fmt.Sprint(len(xs))}
	for _, x := range xs {
		out = append(out, tokStr(x))
	}
	return out
}

func sortedCustom(u *User) []CustomAttr {
	cs := append([]CustomAttr{}, u.Custom...)
	sort.Slice(cs, func(i, j int) bool { return cs[i].Name < cs[j].Name })
	return cs
}

// attrsTokens encodes a user record as the generated slice of provider.Attributes (custom attributes sorted by name:
// Go's map iteration order is unspecified; both sides are compared with the custom part sorted).
func attrsTokens(u *User) ([]string, error) {
	want := []string{"email", "fullName", "givenName", "surname", "userID", "username", "customAttributes"}
	fs := meta.Structs["provider_Attributes"]
	if len(fs) != len(want) {
		return nil, fmt.Errorf("generated slice of provider.Attributes changed: %v", fs)
	}
	for i, f := range fs {
		if f.Go != want[i] {
			return nil, fmt.Errorf("generated slice of provider.Attributes changed: %v", fs)
		}
	}
	t := []string{tokStr(u.Email), tokStr(u.FullName), tokStr(u.GivenName), tokStr(u.Surname), tokStr(u.UserID), tokStr(u.Username)}
	cs := sortedCustom(u)
	t = append(t, fmt.Sprint(len(cs)))
	for _, c := range cs {
		t = append(t, tokStr(c.Name), tokStr(c.Friendly), tokStr(c.Format))
		t = append(t, strList(c.Values)...)
	}
	return t, nil
}

func keyOra(label string) []string {
	// (Option key_CertificateAndKey) × Err ; key_CertificateAndKey = Certificate (bytes), Key (Option KeyRec{isZero})
	cert := tokBytes([]byte("cert"))
	switch label {
	case "fail":
		return []string{"-", "+", tokStr("injected")}
	case "nil":
		return []string{"-", "-"}
	case "nokey":
		return []string{"+", cert, "-", "-"}
	case "nocert":
		return []string{"+", "x", "+", "0", "-"}
	case "emptycert":
		return []string{"+", "x", "+", "0", "-"}
	}
	return []string{"+", cert, "+", "0", "-"}
}

func msgAttrTokens(a MsgAttr) []string {
	t := []string{tokStr(a.Name), tokStr(a.Format), tokStr(a.Friendly)}
	return append(t, strList(a.Values)...)
}

// cbCanon renders what the implementation did in the driver's canonical form.
func cbCanon(r *CbRun) string {
	d := r.Deliv
	switch d.Kind {
	case "panic":
		return "panic"
	case "http-error":
		return fmt.Sprintf("http %d", d.Code)
	case "post", "redirect", "xmlbody":
	default:
		return "other:" + d.Kind
	}
	if d.Msg == nil {
		return "unparsable-reply " + d.Err
	}
	m := d.Msg
	target, relay := d.Target, d.Relay
	if d.Kind == "xmlbody" {
		target, relay = "", ""
	}
	if d.Kind == "redirect" {
		// the model's target is the consumer URL; the Location is that URL plus ?/& and the query
		target = strings.TrimSuffix(strings.TrimSuffix(r.Reply.Location[:len(r.Reply.Location)-len(d.RawQuery)], "?"), "&")
		if !strings.HasSuffix(r.Reply.Location, d.RawQuery) {
			target = d.Target
		}
		// the raw query starts at the first '?', which may belong to the consumer URL itself
		if r.Rec != nil && redirectAddresses(r.Reply.Location, r.Rec.Acs) {
			target = r.Rec.Acs
		}
	}
	if d.Kind == "post" && r.Rec != nil && (target == htmlURLNormalize(r.Rec.Acs) || (target == "#ZgotmplZ" && tmplURLFiltered(r.Rec.Acs))) {
		// html/template replaces a consumer URL whose scheme is not http(s)/mailto by its fail-safe value (C17)
		target = r.Rec.Acs
	}
	sig := "none"
	if m.AssertSigned {
		sig = "enveloped"
	} else if d.Kind == "redirect" && d.Sig != "" {
		sig = "query"
	}
	t := []string{d.Kind, tokStr(target), tokStr(relay), statusShort(m.Status), tokStr(m.InResponseTo), tokStr(m.Destination), tokStr(m.Issuer), sig, tokStr(m.StatusMessage)}
	if m.AssertionID == "" {
		t = append(t, "A0")
		return strings.Join(t, " ")
	}
	t = append(t, "A1", tokStr(m.NameID), tokStr(m.AssertIssuer))
	t = append(t, strList(m.Audiences)...)
	t = append(t, tokStr(m.SCInResponse), tokStr(m.SCRecipient))
	nStd := 0
	if r.User != nil {
		nStd = len(specAttrs(r.User))
	}
	attrs := append([]MsgAttr{}, m.Attrs...)
	if nStd <= len(attrs) {
		tail := attrs[nStd:]
		sort.Slice(tail, func(i, j int) bool { return tail[i].Name < tail[j].Name })
	}
	t = append(t, fmt.Sprint(len(attrs)))
	for _, a := range attrs {
		t = append(t, msgAttrTokens(a)...)
	}
	tt := "T0"
	if m.NotBefore == m.IssueInstant && m.AuthnInstant == m.IssueInstant && m.SCNotOnOrAft == m.NotOnOrAfter && m.AssertionID != m.ID {
		tt = "T1"
	}
	t = append(t, tt)
	return strings.Join(t, " ")
}

func cbCompare(c *Ctx, r *CbRun) {
	if c.drv == nil || r.Prov == nil {
		return
	}
	cs := r.Case
	ora := Ora{"m_GetResponseSigningKey": keyOra(cs["respkey"])}
	oraTok, err := meta.oraTokens(ora)
	if err != nil {
		c.issue(Issue{Kind: "disagreement", What: err.Error(), Site: "cb op"})
		return
	}
	id := ""
	switch cs["idplace"] {
	case "query", "body", "both":
		id = "ar-7"
	}
	toks := append([]string{"cb"}, oraTok...)
	toks = append(toks, tokStr("https://idp.example.com/saml/metadata"), "0", tokStr(id))
	if r.Rec != nil && cs["lookup"] == "ok" && id != "" {
		toks = append(toks, "+", tokStr(r.Rec.ReqID), tokStr(r.Rec.Relay), tokStr(r.Rec.Binding), tokStr(r.Rec.Acs), tokStr(r.Rec.AppID), tokStr(r.Rec.UserID), tokBool(r.Rec.IsDone))
	} else {
		toks = append(toks, "-")
	}
	toks = append(toks, tokStr(r.Storage.LookupErr)) // the text of the error AuthRequestByID returned ("" when it returned a record)
	if cs["entity"] == "ok" {
		toks = append(toks, "+", tokStr(r.Entity))
	} else {
		toks = append(toks, "-")
	}
	if cs["userinfo"] == "ok" && r.User != nil {
		at, err := attrsTokens(r.User)
		if err != nil {
			c.issue(Issue{Kind: "disagreement", What: err.Error(), Site: "cb op"})
			return
		}
		toks = append(toks, "+")
		toks = append(toks, at...)
	} else {
		toks = append(toks, "-")
	}
	toks = append(toks, tokBool(cs["sigalg"] != "invalid" && cs["respkey"] != "mismatch")) // signing fails for an unknown algorithm and for a key that does not belong to the certificate
	line := strings.Join(toks, " ")
	got := c.drv.Ask(line)
	want := cbCanon(r)
	c.rep.TracesValidated++
	if got != want {
		c.issue(Issue{Kind: "disagreement", What: "callback model and implementation differ", Site: "cb op", Class: r.Deliv.Kind, Op: line, Model: got, Impl: want, Detail: r.detail()})
	}
	_ = provider.PostBinding
}
