package main

// C07 — conformant requests from registered service providers are accepted: composes the three request kinds.

func init() {
	props["C07"] = func(c *Ctx) {
		ssoSuite(c, monC07sso, "")
		r1 := c.rep.Rule
		sloSuite(c, monC07slo, "")
		r2 := c.rep.Rule
		aqSuite(c, monC07aq, "")
		c.rep.Rule = "Conformance monitor: every case that is conformant by construction (registered issuer, ID/Version present, destination absent or advertised, validity window around now in a lexical form of the profile incl. 0/3/9 fractional digits, a binding the IdP advertises with its transport encoding, unsigned where not required or correctly signed with rsa-sha1/rsa-sha256 in any percent-encoding style, KeyInfo absent / registered certificate in any layout, healthy storage) must be accepted / answered with Success; each conformant shape is concretised in several serialisation styles (prefix choices incl. default namespace, XML declaration, indentation). [AuthnRequest] " + r1 + " [LogoutRequest] " + r2 + " [AttributeQuery] " + c.rep.Rule
	}
}
