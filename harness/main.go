package main

// corr: the correspondence harness.  Usage:
//   corr -prop C16 -tier quick -seed 1 -driver <path> -meta gen/meta.json -out report.json [-replay file]
// It links the real library in-process, generates inputs, runs implementation and model (through the
// Lean driver) on the same inputs, evaluates the property monitors on the implementation and writes a
// JSON report.  Exit status 0 always (the runner decides); 2 on internal errors.

import (
	"encoding/json"
	"flag"
	"fmt"
	"os"
	"path/filepath"
	"sort"
	"strings"
	"time"
)

type Issue struct {
	Kind   string                 `json:"kind"` // "violation" | "disagreement"
	What   string                 `json:"what"`
	Site   string                 `json:"site,omitempty"`
	Class  string                 `json:"class,omitempty"`
	Op     string                 `json:"op,omitempty"`
	Model  string                 `json:"model,omitempty"`
	Impl   string                 `json:"impl,omitempty"`
	Detail map[string]interface{} `json:"detail,omitempty"`
	Replay string                 `json:"replay,omitempty"`
}

type Report struct {
	Property           string                    `json:"property"`
	Tier               string                    `json:"tier"`
	Seed               uint64                    `json:"seed"`
	Evaluations        int                       `json:"evaluations"`
	DistinctNontrivial int                       `json:"distinct_nontrivial"`
	Rule               string                    `json:"rule"`
	Samples            []interface{}             `json:"samples"`
	Exhaustive         bool                      `json:"exhaustive"`
	TracesValidated    int                       `json:"traces_validated_against_impl"`
	Disagreements      []Issue                   `json:"disagreements"`
	Violations         []Issue                   `json:"violations"`
	Hist               map[string]map[string]int `json:"histograms"`
	Notes              []string                  `json:"notes"`
	ModelAvailable     bool                      `json:"model_available"`
	WallS              float64                   `json:"wall_s"`
}

type Ctx struct {
	prop   string
	tier   string
	seed   uint64
	rng    *Rng
	drv    *Driver
	rep    *Report
	outDir string
	nIssue int
	seen   map[string]bool
	replay string
}

func (c *Ctx) thorough() bool { return c.tier == "thorough" }

func (c *Ctx) hist(group, key string) {
	if c.rep.Hist[group] == nil {
		c.rep.Hist[group] = map[string]int{}
	}
	c.rep.Hist[group][key]++
}

func (c *Ctx) sample(v interface{}) {
	if len(c.rep.Samples) < 12 {
		c.rep.Samples = append(c.rep.Samples, v)
	}
}

// nontrivial counts a case as distinct and non-trivial under the property's rule (key = canonical form).
func (c *Ctx) nontrivial(key string) {
	if !c.seen[key] {
		c.seen[key] = true
		c.rep.DistinctNontrivial++
	}
}

const maxIssues = 25

func (c *Ctx) issue(is Issue) {
	list := &c.rep.Violations
	if is.Kind == "disagreement" {
		list = &c.rep.Disagreements
	}
	// keep one issue per (kind, site, class, what)
	for _, x := range *list {
		if x.Site == is.Site && x.Class == is.Class {
			return
		}
	}
	if len(*list) >= maxIssues {
		return
	}
	c.nIssue++
	if c.outDir != "" {
		_ = os.MkdirAll(c.outDir, 0o755)
		prefix := c.prop
		if v := os.Getenv("VERIF_REPLAY_PREFIX"); v != "" {
			prefix = v + "-" + c.prop
		}
		p := filepath.Join(c.outDir, fmt.Sprintf("%s-%d-%d.json", prefix, c.seed, c.nIssue))
		is.Replay = p
		b, _ := json.MarshalIndent(map[string]interface{}{
			"property": c.prop, "kind": is.Kind, "what": is.What, "site": is.Site, "class": is.Class,
			"op_line": is.Op, "model": is.Model, "impl": is.Impl, "detail": is.Detail, "seed": c.seed, "tier": c.tier,
			"how_to_replay": fmt.Sprintf("./check %s --replay %s", c.prop, p),
		}, "", " ")
		_ = os.WriteFile(p, b, 0o644)
	}
	*list = append(*list, is)
}

var props = map[string]func(*Ctx){}

func main() {
	prop := flag.String("prop", "", "property id")
	tier := flag.String("tier", "quick", "quick|thorough")
	seed := flag.Uint64("seed", 1, "seed")
	driver := flag.String("driver", "", "path of the Lean driver executable")
	metaPath := flag.String("meta", "gen/meta.json", "generated metadata")
	out := flag.String("out", "", "report path")
	replays := flag.String("replays", "", "directory for replay files")
	replay := flag.String("replay", "", "replay file to re-run")
	flag.Parse()
	if err := loadMeta(*metaPath); err != nil {
		fmt.Fprintln(os.Stderr, "meta:", err)
		os.Exit(2)
	}
	f, ok := props[*prop]
	if !ok {
		var ks []string
		for k := range props {
			ks = append(ks, k)
		}
		sort.Strings(ks)
		fmt.Fprintln(os.Stderr, "unknown property; have", strings.Join(ks, " "))
		os.Exit(2)
	}
	c := &Ctx{prop: *prop, tier: *tier, seed: *seed, rng: newRng(*seed), outDir: *replays, seen: map[string]bool{}, replay: *replay}
	c.rep = &Report{Property: *prop, Tier: *tier, Seed: *seed, Hist: map[string]map[string]int{}, Samples: []interface{}{}, Disagreements: []Issue{}, Violations: []Issue{}, Notes: []string{}}
	if *driver != "" {
		d, err := startDriver(*driver)
		if err != nil {
			c.rep.Notes = append(c.rep.Notes, "driver unavailable: "+err.Error())
		} else {
			c.drv = d
			c.rep.ModelAvailable = true
			defer d.Close()
		}
	}
	start := time.Now()
	f(c)
	c.rep.WallS = time.Since(start).Seconds()
	b, _ := json.MarshalIndent(c.rep, "", " ")
	if *out != "" {
		if err := os.WriteFile(*out, b, 0o644); err != nil {
			fmt.Fprintln(os.Stderr, err)
			os.Exit(2)
		}
	} else {
		os.Stdout.Write(b)
	}
}

// fnLine builds an `fn` op line.
func fnLine(name string, ora Ora, args ...[]string) (string, error) {
	ot, err := meta.oraTokens(ora)
	if err != nil {
		return "", err
	}
	toks := []string{"fn", name}
	toks = append(toks, ot...)
	for _, a := range args {
		toks = append(toks, a...)
	}
	return strings.Join(toks, " "), nil
}

// batch collects op lines with their expected replies and flushes them through the driver.
type batch struct {
	c     *Ctx
	lines []string
	want  []string
	desc  []func() map[string]interface{}
	site  string
}

func (b *batch) add(line, want string, desc func() map[string]interface{}) {
	b.lines = append(b.lines, line)
	b.want = append(b.want, want)
	b.desc = append(b.desc, desc)
	if len(b.lines) >= 20000 {
		b.flush()
	}
}

func (b *batch) flush() {
	if len(b.lines) == 0 {
		return
	}
	if b.c.drv != nil {
		got := b.c.drv.AskMany(b.lines)
		for i := range got {
			b.c.rep.TracesValidated++
			if strings.HasPrefix(b.want[i], "\x00prefix:") {
				if strings.HasPrefix(got[i], strings.TrimPrefix(b.want[i], "\x00prefix:")) {
					continue
				}
			}
			if got[i] != b.want[i] {
				var d map[string]interface{}
				if b.desc[i] != nil {
					d = b.desc[i]()
				}
				b.c.issue(Issue{Kind: "disagreement", What: "model and implementation differ", Site: b.site, Op: b.lines[i], Model: got[i], Impl: b.want[i], Detail: d})
			}
		}
	}
	b.lines, b.want, b.desc = nil, nil, nil
}

// addPrefix is like add but only requires the driver's reply to start with want (error texts differ between Go and the model).
func (b *batch) addPrefix(line, want string, desc func() map[string]interface{}) {
	b.lines = append(b.lines, line)
	b.want = append(b.want, "\x00prefix:"+want)
	b.desc = append(b.desc, desc)
}
