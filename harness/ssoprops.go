package main

// Property monitors over SSO runs.  Each evaluates its property on what the implementation did,
// using only facts that hold by construction of the request — never the library's own decisions.

import (
	"fmt"
	"strings"

	"github.com/zitadel/saml/pkg/provider"
)

type ssoMonitor func(c *Ctx, r *SsoRun)

func ssoSuite(c *Ctx, mon ssoMonitor, rule string) {
	c.rep.Rule = "SSO requests from the label-driven domain of DESIGN Appendix B (" + fmt.Sprint(len(ssoDims)) + " dimensions): for each of 6 base configurations (unsigned/signed/required x Redirect/POST) every single-dimension sweep and every pairwise sweep, plus random 2-4 edit cases; each case is concretised into a real HTTP request against a fresh provider and recording storage. Non-trivial = the request reached the decode step (well-formed AuthnRequest); distinct = distinct label vector. " + rule
	one := func(cs Case) {
		r := runSso(cs)
		c.rep.Evaluations++
		if r.BuildErr != "" {
			c.hist("build", r.BuildErr[:min(40, len(r.BuildErr))])
		}
		if r.Facts.Decodes {
			c.nontrivial(cs.key())
		}
		outcome := r.Deliv.Kind
		if r.Deliv.Msg != nil {
			outcome += ":" + statusShort(r.Deliv.Msg.Status)
			if i := strings.Index(r.Deliv.Msg.StatusMessage, ":"); i > 0 {
				outcome += ":" + r.Deliv.Msg.StatusMessage[:i]
			} else if r.Deliv.Msg.StatusMessage != "" {
				outcome += ":" + r.Deliv.Msg.StatusMessage
			}
		}
		c.hist("outcome", outcome)
		mon(c, r)
		if c.drv != nil && r.Prov != nil {
			line, want, err := ssoModelLine(r, r.Prov)
			if err != nil {
				c.issue(Issue{Kind: "disagreement", What: "cannot build the model input: " + err.Error(), Site: "sso op", Detail: r.detail()})
			} else {
				got, step := stripStep(c.drv.Ask(line))
				c.rep.TracesValidated++
				if step != "" {
					c.hist("model-failing-step", step)
				}
				if got != want {
					det := r.detail()
					c.issue(Issue{Kind: "disagreement", What: "SSO model and implementation differ", Site: "sso op", Class: "step=" + step, Op: line, Model: got, Impl: want, Detail: det})
				}
			}
		}
		if c.rep.Evaluations%997 == 1 {
			c.sample(map[string]interface{}{"case": cs.diff(), "request_method": r.Req.Method, "outcome": outcome, "storage_calls": len(r.Calls)})
		}
	}
	ssoEnumerate(true, one)
	n := 3000
	if c.thorough() {
		n = 60000
	}
	ssoRandom(c.rng, n, one)
	c.rep.Exhaustive = false
	c.rep.Notes = append(c.rep.Notes, "single and pairwise dimension sweeps are complete over the listed label values; triples and beyond are sampled")
}

func min(a, b int) int {
	if a < b {
		return a
	}
	return b
}

// ---- C08: one request, one outcome; rejected requests leave no trace

func monC08(c *Ctx, r *SsoRun) {
	all, ok := r.creates()
	site := "ssoHandleFunc"
	if r.Reply.Panicked {
		return // C09's business; C08 is stated for terminating runs
	}
	d := r.Deliv
	if d.Kind == "login303" {
		switch {
		case len(ok) != 1 || len(all) != 1:
			c.issue(Issue{Kind: "violation", What: "redirect to login without exactly one successful persist", Site: site, Class: "login-without-single-persist", Detail: r.detail()})
		default:
			id := ""
			for k, v := range r.Storage.Reqs {
				_ = v
				id = k
			}
			if d.Target != loginURL(id) {
				c.issue(Issue{Kind: "violation", What: "login redirect does not carry the identifier storage returned", Site: site, Class: "login-url", Detail: r.detail()})
			}
		}
		return
	}
	cls := "acs=" + r.Case["acs"]
	if len(ok) > 0 {
		c.issue(Issue{Kind: "violation", What: "request persisted although the reply is not the login redirect (kind " + d.Kind + ")", Site: site, Class: "persisted-but-not-answered:" + cls, Detail: r.detail()})
	}
	if len(all) > 1 {
		c.issue(Issue{Kind: "violation", What: "more than one persist attempt", Site: site, Class: "multi-persist", Detail: r.detail()})
	}
	switch d.Kind {
	case "http-error":
	case "post", "redirect", "xmlbody":
		if d.Msg == nil {
			c.issue(Issue{Kind: "violation", What: "reply is not a single well-formed SAML message: " + d.Err, Site: site, Class: "malformed-reply", Detail: r.detail()})
		} else if d.Msg.Docs != 1 || d.NForms > 1 {
			c.issue(Issue{Kind: "violation", What: "reply is a concatenation of several messages", Site: site, Class: "concatenated-reply", Detail: r.detail()})
		} else if d.Msg.Status == provider.StatusCodeSuccess || d.Msg.Status == "" {
			c.issue(Issue{Kind: "violation", What: "error reply with Success/empty status", Site: site, Class: "success-status-on-reject", Detail: r.detail()})
		}
	case "empty":
		c.issue(Issue{Kind: "violation", What: "empty reply (HTTP 200 without a message)", Site: site, Class: "empty-reply:" + cls, Detail: r.detail()})
	default:
		c.issue(Issue{Kind: "violation", What: "reply is neither the login redirect, a SAML Response nor an HTTP error: " + d.Kind + " " + d.Err, Site: site, Class: "other-reply", Detail: r.detail()})
	}
}

// ---- C06: accepted requests satisfy every validity condition

func monC06(c *Ctx, r *SsoRun) {
	if !r.accepted() {
		return
	}
	f := r.Facts
	check := func(ok bool, what, class string) {
		if !ok {
			c.issue(Issue{Kind: "violation", What: "accepted although " + what, Site: "ssoHandleFunc", Class: class, Detail: r.detail()})
		}
	}
	check(f.RequestNonEmpty, "SAMLRequest is empty", "empty-request")
	check(!f.SigAlgWithoutSig, "SigAlg given without Signature", "sigalg-without-sig")
	check(f.KnownEncoding, "SAMLEncoding is unknown", "unknown-encoding")
	check(f.Decodes, "the payload is not a well-formed AuthnRequest", "undecodable")
	check(f.IssuerPresent, "Issuer is absent", "issuer-absent")
	check(f.IssuerRegistered, "Issuer is not a registered service provider", "issuer-unregistered")
	check(f.IDSet, "ID is empty", "id-empty")
	check(f.VersionSet, "Version is empty", "version-empty")
	check(f.DestinationOK, "Destination is not an advertised SSO location", "destination:"+r.Case["destination"])
	check(f.TimeOK, "Conditions do not bracket the current time", "time:"+r.Case["notbefore"]+"/"+r.Case["notonorafter"])
}

// ---- C05: unsigned or forged requests are never accepted when signing is required

func monC05(c *Ctx, r *SsoRun) {
	if !r.accepted() {
		return
	}
	f := r.Facts
	validForBinding := (f.Binding == "redirect" && f.ParamSigValid) || (f.Binding == "post" && f.EmbSigValid)
	if f.SigRequired && !validForBinding {
		cl := fmt.Sprintf("required(sp=%s,idp=%s)-binding=%s-sig=%s-emb=%s", r.Case["reqsigned"], r.Case["wantsigned"], f.Binding, r.Case["sig"], r.Case["embedded"])
		c.issue(Issue{Kind: "violation", What: "signing is required but the accepted request carries no signature that verifies under the registered key for the binding in effect", Site: "ssoHandleFunc", Class: cl, Detail: r.detail()})
	}
	// whatever the configuration: a non-empty signature value that does not verify
	if f.ParamSigPresent && !f.ParamSigValid {
		c.issue(Issue{Kind: "violation", What: "accepted although the Signature parameter does not verify", Site: "ssoHandleFunc", Class: "bad-param-sig-binding=" + f.Binding + "-sig=" + r.Case["sig"] + "-alg=" + r.Case["sigalg"], Detail: r.detail()})
	}
	if f.EmbSigPresent && !f.EmbSigValid {
		c.issue(Issue{Kind: "violation", What: "accepted although the embedded signature does not verify under the registered certificate", Site: "ssoHandleFunc", Class: "bad-embedded-sig-binding=" + f.Binding + "-emb=" + r.Case["embedded"] + "-certs=" + r.Case["certs"], Detail: r.detail()})
	}
	// what was persisted is what was signed
	_, ok := r.creates()
	if len(ok) == 1 && f.SigRequired && validForBinding {
		if ok[0].Args[2] != r.RelayActedOn {
			c.issue(Issue{Kind: "violation", What: "persisted RelayState differs from the signed one", Site: "ssoHandleFunc", Class: "relay-mismatch", Detail: r.detail()})
		}
	}
}

// ---- C09 (SSO slice): no panic

func monC09sso(c *Ctx, r *SsoRun) {
	if r.Reply.Panicked {
		first := strings.SplitN(r.Reply.PanicMsg, "\n", 2)[0]
		where := panicSite(r.Reply.PanicMsg)
		c.issue(Issue{Kind: "violation", What: "panic while serving an SSO request: " + first, Site: "ssoHandleFunc", Class: where, Detail: r.detail()})
	}
}

// panicSite extracts the first /repo frame of a panic stack ("file.go:line" is unstable; use the function name).
func panicSite(stack string) string {
	lines := strings.Split(stack, "\n")
	for i, l := range lines {
		if strings.Contains(l, "github.com/zitadel/saml/pkg/") && !strings.Contains(l, "verifharness") && i+1 < len(lines) {
			fn := strings.TrimSpace(l)
			if j := strings.LastIndex(fn, "("); j > 0 {
				fn = fn[:j]
			}
			fn = strings.TrimPrefix(fn, "github.com/zitadel/saml/pkg/")
			return fn
		}
	}
	return "unknown"
}

// ---- C02 (SSO slice): delivery targets and the persisted pair are registered

func monC02sso(c *Ctx, r *SsoRun) {
	reg := map[string]string{}
	for _, a := range r.SP.Acs {
		reg[a.Location] = a.Binding
	}
	if r.Case["issuer"] == "other-registered" {
		reg = map[string]string{"https://sp.example.com/acs/post": provider.PostBinding}
	}
	_, ok := r.creates()
	for _, cr := range ok {
		if b, found := reg[cr.Args[0]]; !found || b != cr.Args[1] {
			c.issue(Issue{Kind: "violation", What: "persisted (URL, binding) is not a registered AssertionConsumerService entry", Site: "ssoHandleFunc", Class: "persisted-pair", Detail: r.detail()})
		}
	}
	d := r.Deliv
	if d.Kind == "post" || d.Kind == "redirect" {
		if _, found := reg[d.Target]; !found {
			c.issue(Issue{Kind: "violation", What: "SSO error reply delivered to an unregistered URL " + d.Target, Site: "ssoHandleFunc", Class: "error-target", Detail: r.detail()})
		}
		if d.Msg != nil && d.Msg.Destination != "" && d.Msg.Destination != d.Target {
			c.issue(Issue{Kind: "violation", What: "Destination inside the message differs from the delivery target", Site: "ssoHandleFunc", Class: "destination-mismatch", Detail: r.detail()})
		}
	}
}

// ---- C07 (AuthnRequest slice): conformant requests are accepted

func conformantSso(r *SsoRun) bool {
	f := r.Facts
	cs := r.Case
	if r.BuildErr != "" || cs["lookup"] != "ok" || cs["create"] != "ok" || cs["respkey"] != "ok" {
		return false
	}
	if !(f.RequestNonEmpty && f.KnownEncoding && f.Decodes && f.IssuerPresent && f.IssuerRegistered && f.IDSet && f.VersionSet && f.DestinationOK && f.TimeOK) {
		return false
	}
	if cs["issuer"] != "registered" || cs["transport"] == "post-both" || cs["transport"] == "post-query-replay" || cs["acsurl"] != "absent" {
		return false
	}
	// transport encoding per binding
	if f.Binding == "post" && cs["encoding"] != "default" && cs["encoding"] != "absent" {
		return false
	}
	// a usable consumer endpoint
	switch cs["acs"] {
	case "post+redirect", "post", "redirect", "redirect-default-post":
	default:
		return false
	}
	// signatures: none where not required, or valid for the binding; nothing half-present
	switch f.Binding {
	case "redirect":
		if cs["embedded"] != "none" {
			return false
		}
		if cs["sig"] == "" && cs["sigalg"] == "" {
			return !f.SigRequired
		}
		return f.ParamSigValid
	case "post":
		if cs["sig"] != "" || cs["sigalg"] != "" {
			return false
		}
		if cs["embedded"] == "none" {
			return !f.SigRequired
		}
		return f.EmbSigValid && cs["certs"] == "one-rsa" && (cs["embedded"] == "valid" || cs["embedded"] == "valid-nokeyinfo" || cs["embedded"] == "valid-wrappedcert")
	}
	return false
}

func monC07sso(c *Ctx, r *SsoRun) {
	if !conformantSso(r) {
		return
	}
	c.hist("conformant", "yes")
	if !r.accepted() || r.Deliv.Kind != "login303" {
		cl := fmt.Sprintf("binding=%s", r.Facts.Binding)
		if r.Facts.Binding == "redirect" && r.Case["sig"] == "valid" && r.Case["escstyle"] != "go" {
			// the simulated SP signed (and sent) the query in a legal percent-encoding that is not Go's url.QueryEscape form
			c.issue(Issue{Kind: "violation", What: "conformant signed Redirect-binding AuthnRequest was not accepted", Site: "ServiceProvider.ValidateRedirectSignature",
				Class: "redirect-signature-percent-encoding:" + r.Case["escstyle"], Detail: r.detail()})
			return
		}
		for _, k := range []string{"encoding", "embedded", "sig", "escstyle", "notbefore", "style", "protobinding", "acs"} {
			if r.Case[k] != baseCase()[k] {
				cl += "," + k + "=" + r.Case[k]
			}
		}
		c.issue(Issue{Kind: "violation", What: "conformant AuthnRequest from a registered service provider was not accepted", Site: "ssoHandleFunc", Class: cl, Detail: r.detail()})
	}
}

func init() {
	props["C08"] = func(c *Ctx) { ssoSuite(c, monC08, "Monitor: persist count/arguments, reply kind, number of documents/forms.") }
	props["C06"] = func(c *Ctx) {
		libTimeParse(c)
		ssoSuite(c, monC06, "Monitor: independent evaluation of the necessary conditions vs. CreateAuthRequest. Lib.Time.parseDefault vs time.Parse on a boundary corpus and a mutation stream.")
	}
	props["timeparse"] = libTimeParse
	props["C05"] = func(c *Ctx) {
		reqOctetsDiff(c)
		ssoSuite(c, monC05, "Monitor: what the simulated SP actually signed vs. CreateAuthRequest. Octets differential: signatures made with a real key over the octets of the model (RedirectSigGen.octets, through the driver) must be accepted by the real ValidateRedirectSignature for exactly these values and refused for a changed request / RelayState.")
	}
	props["survey-sso"] = func(c *Ctx) {
		ssoSuite(c, func(c *Ctx, r *SsoRun) {
			monC08(c, r)
			monC06(c, r)
			monC05(c, r)
			monC09sso(c, r)
			monC02sso(c, r)
			monC07sso(c, r)
		}, "all monitors")
	}
}
