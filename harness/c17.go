package main

// C17 — auto-submit pages cannot be altered by request-controlled values.
//
// Three things are compared here:
//   (1) model vs implementation: `lib page` (Lean: literal segments read from template.go + the escaper models)
//       against the bytes html/template writes for the library's own template constants, and against the bodies the
//       real handlers (login callback, SSO error reply, logout) send;
//   (2) model vs a second implementation: `lib tok` (the Lean tokenizer the theorems are about) against the
//       x/net/html tokenizer on those same pages;
//   (3) the property itself, on the implementation only, with x/net/html as the independent parser.

import (
	"net/http/httptest"
	"bytes"
	"fmt"
	"html/template"
	"io"
	"net/url"
	"strings"
	"time"

	"golang.org/x/net/html"

	"github.com/zitadel/saml/pkg/provider"
)

func init() { props["C17"] = runC17 }

type c17Form struct {
	Action  string
	Method  string
	Hidden  [][2]string
	Others  int
	HasAct  bool
	HasMeth bool
}

type c17Page struct {
	Events  []string // canonical event list (same encoding as the Lean driver)
	Forms   []c17Form
	Starts  []string
	OnAttrs []string
	Scripts int
}

func hx(s string) string { return fmt.Sprintf("%x", s) }

// tokenizePage runs the x/net/html tokenizer (scripting on: <noscript> is raw text; off: it is markup).
func tokenizePage(page []byte, scripting bool) c17Page {
	z := html.NewTokenizer(bytes.NewReader(page))
	var p c17Page
	var cur *c17Form
	for {
		tt := z.Next()
		if tt == html.ErrorToken {
			break
		}
		switch tt {
		case html.StartTagToken, html.SelfClosingTagToken:
			tok := z.Token()
			if !scripting && tok.Data == "noscript" {
				z.NextIsNotRawText()
			}
			p.Events = append(p.Events, "o:"+hx(tok.Data))
			p.Starts = append(p.Starts, tok.Data)
			seen := map[string]bool{}
			var typ, name, val string
			for _, a := range tok.Attr {
				p.Events = append(p.Events, "a:"+hx(a.Key)+":"+hx(a.Val))
				if seen[a.Key] {
					continue
				}
				seen[a.Key] = true
				if strings.HasPrefix(a.Key, "on") {
					p.OnAttrs = append(p.OnAttrs, a.Key)
				}
				switch tok.Data {
				case "form":
					if cur == nil {
						continue
					}
				case "input":
					switch a.Key {
					case "type":
						typ = strings.ToLower(a.Val)
					case "name":
						name = a.Val
					case "value":
						val = a.Val
					}
				}
			}
			if tt == html.SelfClosingTagToken {
				p.Events = append(p.Events, "e:1")
			} else {
				p.Events = append(p.Events, "e:0")
			}
			switch tok.Data {
			case "script":
				p.Scripts++
			case "form":
				if cur == nil {
					cur = &c17Form{}
					s2 := map[string]bool{}
					for _, a := range tok.Attr {
						if s2[a.Key] {
							continue
						}
						s2[a.Key] = true
						if a.Key == "action" {
							cur.Action, cur.HasAct = a.Val, true
						}
						if a.Key == "method" {
							cur.Method, cur.HasMeth = a.Val, true
						}
					}
				}
			case "input":
				if cur != nil {
					if typ == "hidden" {
						cur.Hidden = append(cur.Hidden, [2]string{name, val})
					} else {
						cur.Others++
					}
				}
			}
		case html.EndTagToken:
			tok := z.Token()
			p.Events = append(p.Events, "c:"+hx(tok.Data))
			if tok.Data == "form" && cur != nil {
				p.Forms = append(p.Forms, *cur)
				cur = nil
			}
		}
	}
	if cur != nil {
		p.Forms = append(p.Forms, *cur)
	}
	return p
}

// what an HTML document can carry of a value: NUL becomes U+FFFD, CR and CR LF become LF
func htmlCarried(s string) string {
	s = strings.ReplaceAll(s, "\x00", "\uFFFD")
	s = strings.ReplaceAll(s, "\r\n", "\n")
	return strings.ReplaceAll(s, "\r", "\n")
}

// lenient percent-decoding: only valid %XX triplets are decoded
func pctDecode(s string) string {
	var b strings.Builder
	for i := 0; i < len(s); i++ {
		if s[i] == '%' && i+2 < len(s) && isHex(s[i+1]) && isHex(s[i+2]) {
			var v byte
			fmt.Sscanf(s[i+1:i+3], "%02x", &v)
			b.WriteByte(v)
			i += 2
		} else {
			b.WriteByte(s[i])
		}
	}
	return b.String()
}

// browserScheme: the scheme a WHATWG URL parser finds in s ("" if none): leading and trailing C0 control or space
// stripped, ASCII tab and newlines removed, then ALPHA *( ALPHA / DIGIT / "+" / "-" / "." ) ":"
func browserScheme(s string) string {
	s = strings.TrimFunc(s, func(r rune) bool { return r <= 0x20 })
	s = strings.NewReplacer("\t", "", "\n", "", "\r", "").Replace(s)
	for i := 0; i < len(s); i++ {
		ch := s[i]
		alpha := ch >= 'a' && ch <= 'z' || ch >= 'A' && ch <= 'Z'
		switch {
		case ch == ':' && i > 0:
			return strings.ToLower(s[:i])
		case alpha, i > 0 && (ch >= '0' && ch <= '9' || ch == '+' || ch == '-' || ch == '.'):
		default:
			return ""
		}
	}
	return ""
}

func safeScheme(u string) bool {
	switch browserScheme(u) {
	case "", "http", "https", "mailto":
		return true
	}
	return false
}

type c17Case struct {
	Which            string // post | logout
	URL, Relay, Msg  string
	Origin           string // template | callback | sso-error | logout
	LabelU, LabelR   string
}

var c17Baseline = map[bool]c17Page{}

// monC17 checks one page against the property statement, independently of the model.
func monC17(c *Ctx, tc c17Case, page []byte) {
	site := "html/template auto-submit page"
	detail := func() map[string]interface{} {
		return map[string]interface{}{"template": tc.Which, "origin": tc.Origin, "url": tc.URL, "relay_hex": hx(tc.Relay), "msg_hex_prefix": hx(tc.Msg[:min(len(tc.Msg), 64)]), "url_label": tc.LabelU, "relay_label": tc.LabelR}
	}
	for _, scripting := range []bool{true, false} {
		p := tokenizePage(page, scripting)
		base := c17Baseline[scripting]
		if strings.Join(p.Starts, ",") != strings.Join(base.Starts, ",") {
			c.issue(Issue{Kind: "violation", What: fmt.Sprintf("the substituted values changed the page's elements: %v instead of %v", p.Starts, base.Starts), Site: site, Class: "structure", Detail: detail()})
			return
		}
		if p.Scripts != 0 || strings.Join(p.OnAttrs, ",") != "onload" {
			c.issue(Issue{Kind: "violation", What: fmt.Sprintf("script added: %d script elements, handlers %v", p.Scripts, p.OnAttrs), Site: site, Class: "script", Detail: detail()})
			return
		}
		if len(p.Forms) != 1 {
			c.issue(Issue{Kind: "violation", What: fmt.Sprintf("%d forms in the page", len(p.Forms)), Site: site, Class: "form-count", Detail: detail()})
			return
		}
		f := p.Forms[0]
		if !safeScheme(f.Action) {
			c.issue(Issue{Kind: "violation", What: "the form action has an unsafe protocol: " + f.Action, Site: site, Class: "unsafe-action", Detail: detail()})
			return
		}
		if !safeScheme(tc.URL) {
			if f.Action != "#ZgotmplZ" {
				c.issue(Issue{Kind: "violation", What: "a consumer URL with an unsafe protocol was not replaced: " + f.Action, Site: site, Class: "unsafe-action", Detail: detail()})
				return
			}
		} else if f.Action == "#ZgotmplZ" && tc.URL != "#ZgotmplZ" {
			// the filter is stricter than a browser (e.g. a protocol containing a control character): the page is inert
			c.hist("filtered-though-browser-safe", tc.LabelU)
		} else if pctDecode(f.Action) != pctDecode(tc.URL) && pctDecode(f.Action) != pctDecode(htmlCarried(tc.URL)) {
			c.issue(Issue{Kind: "violation", What: "form action is not the consumer URL: " + f.Action, Site: site, Class: "action", Detail: detail()})
			return
		}
		if len(f.Hidden) != 2 || f.Hidden[0][0] != "RelayState" || f.Hidden[1][0] != "SAMLResponse" {
			c.issue(Issue{Kind: "violation", What: fmt.Sprintf("hidden fields are %v", f.Hidden), Site: site, Class: "hidden-fields", Detail: detail()})
			return
		}
		for i, want := range []string{tc.Relay, tc.Msg} {
			got := f.Hidden[i][1]
			name := f.Hidden[i][0]
			if got == strings.ReplaceAll(want, "\x00", "\uFFFD") {
				continue
			}
			if got == htmlCarried(want) {
				// the value arrives, but a CR in it has become LF: HTML can carry CR only as a character reference
				c.issue(Issue{Kind: "violation", What: name + " containing a carriage return is not recovered exactly by an HTML parser (CR arrives as LF)", Site: site, Class: "value-cr:" + name, Detail: detail()})
				continue
			}
			c.issue(Issue{Kind: "violation", What: name + " is not recovered from the page", Site: site, Class: "value:" + name, Detail: detail()})
			return
		}
	}
}

func c17Values(rng *Rng, thorough bool) (urls, relays [][2]string) {
	relays = [][2]string{
		{"plain", "rs-1"}, {"empty", ""}, {"quote", `x" onmouseover="alert(1)`}, {"close-tag", `"><script>alert(1)</script>`}, {"squote", `' onfocus='x`},
		{"amp", "a&b&&c"}, {"entity-lookalike", "&quot;&#34;&#x22;&amp;quot;&lt&gt;&amp"}, {"entity-nosemi", "&amp &lt= &quotx &#34 &#x22z"},
		{"nul", "a\x00b"}, {"lf", "a\nb"}, {"crlf", "a\r\nb"}, {"cr", "a\rb"}, {"tab-ff", "a\tb\fc"}, {"utf8", "日本語𝄞é"}, {"invalid-utf8", "\xff\xfe\x80abc\xc3"},
		{"plus", "a+b c"}, {"lt-gt", "<<>>"}, {"comment", "--><!--"}, {"backtick", "`x`=y"}, {"noscript-end", "</noscript><img src=x onerror=alert(1)>"},
		{"form-end", `"/></div></form><form action="https://evil.example/"><input type="hidden" name="SAMLResponse" value="x`}, {"trailing-amp", "x&"}, {"amp-hash", "&#"}, {"fffd", "\uFFFD"},
	}
	urls = [][2]string{
		{"plain", "https://sp.example.com/acs/post"}, {"query", "https://sp.example.com/acs?tenant=42&x=a+b"}, {"javascript", "javascript:alert(1)"}, {"javascript-case", "JaVaScRiPt:alert(document.domain)"},
		{"javascript-ws", " javascript:alert(1)"}, {"javascript-tab", "java\tscript:alert(1)"}, {"javascript-ctl", "\x01javascript:alert(1)"}, {"data", "data:text/html;base64,PHNjcmlwdD5hbGVydCgxKTwvc2NyaXB0Pg=="},
		{"vbscript", "vbscript:msgbox(1)"}, {"long-s", "http\u017f://sp.example.com/acs"}, {"http", "http://sp.example.com/acs"}, {"mailto", "mailto:a@b.example"}, {"relative", "/acs/post"}, {"scheme-relative", "//sp.example.com/acs"},
		{"slash-before-colon", "x/y:z"}, {"quote", `https://sp.example.com/acs?a="><script>alert(1)</script>`}, {"squote", "https://sp.example.com/it's"}, {"pct-valid", "https://sp.example.com/%C3%A9/%2F"},
		{"pct-invalid", "https://sp.example.com/100%/%zz/%a"}, {"space", "https://sp.example.com/a b"}, {"utf8", "https://sp.example.com/é/日本"}, {"invalid-utf8", "https://sp.example.com/\xff\xfe"},
		{"nul", "https://sp.example.com/a\x00b"}, {"crlf", "https://sp.example.com/a\r\nb"}, {"empty", ""}, {"fragment", "https://sp.example.com/acs#frag"}, {"colon-only", ":"}, {"brackets", "https://[::1]:8443/acs"},
		{"backslash", `https:\\sp.example.com\acs`},
		{"javascript-hier", "javascript://sp.example.com/%0Aalert(document.domain)"}, {"vbscript-hier", "vbscript://sp.example.com/%0Amsgbox(1)"}, {"data-hier", "data://sp.example.com/text/html,<script>alert(1)</script>"},
		{"app-scheme", "com.example.app://saml/acs"}, {"javascript-userinfo", "javascript://u:p@sp.example.com:443/%0Aalert(1)"}, {"failsafe", "#ZgotmplZ"}, {"lt", "https://sp.example.com/<acs>"},
	}
	n := 150
	if thorough {
		n = 4000
	}
	alphabet := []string{"\"", "'", "<", ">", "&", "\x00", "\r", "\n", " ", "+", ";", "#", "x", "3", "4", "=", "/", ":", "%", "a", "é", "\xff", "&#34;", "&amp;", "&lt;", "javascript", "script", "\t", "`", "-", "!", "?"}
	for i := 0; i < n; i++ {
		var b strings.Builder
		l := rng.intn(24)
		for j := 0; j < l; j++ {
			if rng.chance(15) {
				b.WriteByte(byte(rng.intn(256)))
			} else {
				b.WriteString(rng.pick(alphabet))
			}
		}
		relays = append(relays, [2]string{"random", b.String()})
		if i%3 == 0 {
			pre := rng.pick([]string{"https://sp.example.com/", "http://h/", "javascript:", "x:", "", "//", "HTTPS://sp/", "mailto:", "ht\ttps://"})
			urls = append(urls, [2]string{"random", pre + b.String()})
		}
	}
	if thorough {
		big := strings.Repeat("A\"<&>'\x00\r\n+é\xff", 64*1024/14)
		relays = append(relays, [2]string{"64KiB", big})
		urls = append(urls, [2]string{"64KiB", "https://sp.example.com/" + big})
	}
	return
}

func runC17(c *Ctx) {
	c.rep.Rule = "pages rendered from the library's own template constants with (consumer URL x RelayState x message) drawn from labelled adversarial classes and a seeded random byte stream, plus pages sent by the real login-callback, SSO-error and logout handlers; each page is checked with x/net/html in both scripting modes. Non-trivial = a value containing at least one byte that is special in HTML or URLs; distinct = (template, url, relay) triple."
	initKeys()
	consts, _ := provider.VerifExports["consts"].(map[string]string)
	if consts == nil {
		c.issue(Issue{Kind: "disagreement", What: "template constants not exported by the shim", Site: "c17"})
		return
	}
	tpl := map[string]*template.Template{}
	for which, name := range map[string]string{"post": "postTemplate", "logout": "logoutTemplate"} {
		t, err := template.New(which).Parse(consts[name])
		if err != nil {
			c.issue(Issue{Kind: "violation", What: "template does not parse: " + err.Error(), Site: name, Class: "template-parse"})
			return
		}
		tpl[which] = t
	}
	render := func(which, u, r, m string) []byte {
		var buf bytes.Buffer
		var err error
		if which == "post" {
			err = tpl[which].Execute(&buf, struct{ RelayState, SAMLResponse, AssertionConsumerServiceURL string }{r, m, u})
		} else {
			err = tpl[which].Execute(&buf, struct{ RelayState, SAMLResponse, LogoutURL string }{r, m, u})
		}
		if err != nil {
			return []byte("EXECUTE-ERROR: " + err.Error())
		}
		return buf.Bytes()
	}
	for _, sc := range []bool{true, false} {
		c17Baseline[sc] = tokenizePage(render("post", "https://sp.example.com/acs", "rs", "QUJD"), sc)
	}
	urls, relays := c17Values(c.rng.fork(), c.thorough())
	special := func(s string) bool { return strings.ContainsAny(s, "\"'<>&\x00\r\n+ %") || !isValidUTF8([]byte(s)) }
	pageB := &batch{c: c, site: "lib page"}
	tokB := &batch{c: c, site: "lib tok"}
	nTok := 0
	check := func(tc c17Case, page []byte) {
		c.rep.Evaluations++
		c.hist("origin", tc.Origin)
		c.hist("url-class", tc.LabelU)
		c.hist("relay-class", tc.LabelR)
		if special(tc.URL) || special(tc.Relay) {
			c.nontrivial(tc.Which + "|" + tc.URL + "|" + tc.Relay)
		}
		monC17(c, tc, page)
		tcc := tc
		pageB.add(strings.Join([]string{"lib", "page", tc.Which, tokStr(tc.URL), tokStr(tc.Relay), tokStr(tc.Msg)}, " "), tokBytes(page), func() map[string]interface{} {
			return map[string]interface{}{"template": tcc.Which, "origin": tcc.Origin, "url": tcc.URL, "relay_hex": hx(tcc.Relay)}
		})
		// tokenizer correspondence on a share of the pages (each costs two model runs over the whole page)
		if len(page) < 8192 && (nTok < 400 || c.thorough()) {
			nTok++
			for _, sc := range []bool{true, false} {
				p := tokenizePage(page, sc)
				tokB.add("lib tok "+tokBool(sc)+" "+tokBytes(page), strings.Join(p.Events, " "), func() map[string]interface{} {
					return map[string]interface{}{"template": tcc.Which, "origin": tcc.Origin, "url": tcc.URL, "relay_hex": hx(tcc.Relay)}
				})
			}
		}
		if c.rep.Evaluations%97 == 1 {
			c.sample(map[string]interface{}{"template": tc.Which, "origin": tc.Origin, "url": tc.URL, "relay_hex": hx(tc.Relay), "page_bytes": len(page)})
		}
	}
	// (a) the templates themselves: every URL class with every relay class (labelled), random ones paired up
	msgs := []string{"QUJD", "PHNhbWxwOlJlc3BvbnNlPg==", "a+b/c=", ""}
	for ui, u := range urls {
		for ri, r := range relays {
			if u[0] == "random" && r[0] == "random" && (ui+ri)%17 != 0 {
				continue
			}
			if (u[0] == "random") != (r[0] == "random") && (ui+ri)%5 != 0 && !c.thorough() {
				continue
			}
			which := "post"
			if (ui+ri)%4 == 3 {
				which = "logout"
			}
			m := msgs[(ui+ri)%len(msgs)]
			if (ui*7+ri)%29 == 0 {
				// the message hole escapes like the relay hole: feed it hostile bytes too (an encoded message is base64
				// text and never contains a carriage return, so that one byte is left out)
				m = strings.ReplaceAll(r[1], "\r", "")
			}
			check(c17Case{Which: which, URL: u[1], Relay: r[1], Msg: m, Origin: "template", LabelU: u[0], LabelR: r[0]}, render(which, u[1], r[1], m))
		}
	}
	// (b) the real handlers
	for ri, r := range relays {
		if r[0] == "random" && ri%9 != 0 && !c.thorough() {
			continue
		}
		for ui, u := range urls {
			if u[0] == "random" || (ui+ri)%6 != 0 {
				continue
			}
			// login callback: the stored record carries the consumer URL and the RelayState
			st := newStorage()
			_ = st.Register(SPSpec{EntityID: spEntity, AppID: "app-1", ReqSigned: "-", Certs: []string{spKeys.B64}, Acs: acsFor("post+redirect")})
			st.Users["uid-1"] = usersFor("full")
			st.Reqs["ar-7"] = &AuthReq{ID: "ar-7", AppID: "app-1", UserID: "uid-1", ReqID: "id-4711", Issuer: spEntity, Binding: provider.PostBinding, Acs: u[1], Relay: r[1], IsDone: true}
			prov, err := newProvider(st, defaultIdpCfg())
			if err != nil {
				panic(err)
			}
			rep := serve(prov.HttpHandler(), HTTPReq{Method: "GET", Path: "/login", Query: "id=ar-7"})
			if u[1] == "" {
				continue // no consumer URL: the reply is the bare document, not a page
			}
			c17Handler(c, check, "post", "callback", u, r, rep)
		}
		// SSO error reply: the RelayState of the request is reflected to the registered consumer URL
		{
			st := newStorage()
			acs := "https://sp.example.com/acs/post?x=1&y=2"
			_ = st.Register(SPSpec{EntityID: spEntity, AppID: "app-1", ReqSigned: "-", Certs: []string{spKeys.B64}, Acs: []AcsEntry{{"0", "true", provider.PostBinding, acs}}})
			st.Fail("CreateAuthRequest", 1)
			prov, err := newProvider(st, defaultIdpCfg())
			if err != nil {
				panic(err)
			}
			doc := AuthnSpec{ID: "id-4711", Version: "2.0", IssueInstant: time.Now().UTC().Format("2006-01-02T15:04:05Z"), Destination: "-", ProtocolBinding: "-", AcsURL: "-", AcsIndex: "-", Issuer: spEntity, NotBefore: "-", NotOnOrAfter: "-"}.XML()
			form := url.Values{"SAMLRequest": {plainB64(doc)}, "RelayState": {r[1]}}
			rep := serve(prov.HttpHandler(), HTTPReq{Method: "POST", Path: "/SSO", Body: form.Encode(), CType: "application/x-www-form-urlencoded"})
			c17Handler(c, check, "post", "sso-error", [2]string{"registered", acs}, r, rep)
		}
		// logout
		{
			st := newStorage()
			slo := "https://sp.example.com/slo/first?x=1&y=\"2\"'"
			_ = st.Register(SPSpec{EntityID: spEntity, AppID: "app-1", ReqSigned: "-", Certs: []string{spKeys.B64}, Acs: acsFor("post"), Slo: []string{slo}})
			prov, err := newProvider(st, defaultIdpCfg())
			if err != nil {
				panic(err)
			}
			doc, _ := logoutXML(sloBase(), time.Now())
			form := url.Values{"SAMLRequest": {plainB64(doc)}, "RelayState": {r[1]}}
			rep := serve(prov.HttpHandler(), HTTPReq{Method: "POST", Path: "/SLO", Body: form.Encode(), CType: "application/x-www-form-urlencoded"})
			c17Handler(c, check, "logout", "logout", [2]string{"registered", slo}, r, rep)
		}
	}
	// (c) a reply whose write to the client failed must leave nothing behind: the next page of the same provider
	// instance is again exactly the page of its own values (a render buffer that is reused must be empty)
	for round := 0; round < 6; round++ {
		for _, left := range []int{0, 64, 3000} {
			st := newStorage()
			slo := "https://sp.example.com/slo/first?x=1"
			_ = st.Register(SPSpec{EntityID: spEntity, AppID: "app-1", ReqSigned: "-", Certs: []string{spKeys.B64}, Acs: acsFor("post+redirect"), Slo: []string{slo}})
			st.Users["uid-1"] = usersFor("full")
			u1 := [2]string{"plain", "https://sp.example.com/acs/post"}
			r1 := [2]string{"marker", "relay-of-the-FAILED-reply"}
			r2 := [2]string{"plain", "relay-of-the-next-reply"}
			st.Reqs["ar-7"] = &AuthReq{ID: "ar-7", AppID: "app-1", UserID: "uid-1", ReqID: "id-4711", Issuer: spEntity, Binding: provider.PostBinding, Acs: u1[1], Relay: r1[1], IsDone: true}
			st.Reqs["ar-8"] = &AuthReq{ID: "ar-8", AppID: "app-1", UserID: "uid-1", ReqID: "id-4712", Issuer: spEntity, Binding: provider.PostBinding, Acs: u1[1], Relay: r2[1], IsDone: true}
			prov, err := newProvider(st, defaultIdpCfg())
			if err != nil {
				panic(err)
			}
			h := prov.HttpHandler()
			doc, _ := logoutXML(sloBase(), time.Now())
			for _, kind := range []string{"callback", "logout"} {
				rec := httptest.NewRecorder()
				fw := &failingWriter{ResponseRecorder: rec, left: left}
				var rep Reply
				if kind == "callback" {
					serveOn(h, HTTPReq{Method: "GET", Path: "/login", Query: "id=ar-7"}, fw, rec)
					rep = serve(h, HTTPReq{Method: "GET", Path: "/login", Query: "id=ar-8"})
				} else {
					f1 := url.Values{"SAMLRequest": {plainB64(doc)}, "RelayState": {r1[1]}}
					serveOn(h, HTTPReq{Method: "POST", Path: "/SLO", Body: f1.Encode(), CType: "application/x-www-form-urlencoded"}, fw, rec)
					f2 := url.Values{"SAMLRequest": {plainB64(doc)}, "RelayState": {r2[1]}}
					rep = serve(h, HTTPReq{Method: "POST", Path: "/SLO", Body: f2.Encode(), CType: "application/x-www-form-urlencoded"})
				}
				c.rep.Evaluations++
				c.hist("after-failed-write", fmt.Sprintf("%s left=%d", kind, left))
				if strings.Contains(rep.Body, r1[1]) {
					c.issue(Issue{Kind: "violation", What: "the page that follows a reply whose write failed carries the RelayState of that other reply", Site: "sendBack" + map[string]string{"callback": "Response", "logout": "LogoutResponse"}[kind], Class: "stale-render-buffer:" + kind,
						Detail: map[string]interface{}{"endpoint": kind, "bytes_accepted_before_the_failure": left, "first_relay": r1[1], "second_relay": r2[1], "body_prefix": rep.Body[:min(300, len(rep.Body))]}})
					continue
				}
				if kind == "callback" {
					c17Handler(c, check, "post", "callback-after-failed-write", u1, r2, rep)
				} else {
					c17Handler(c, check, "logout", "logout-after-failed-write", [2]string{"registered", slo}, r2, rep)
				}
			}
		}
	}
	pageB.flush()
	tokB.flush()
}

// c17Handler feeds one handler reply into the page checks; the message is whatever an independent parse finds in the page.
func c17Handler(c *Ctx, check func(c17Case, []byte), which, origin string, u, r [2]string, rep Reply) {
	body := []byte(rep.Body)
	if !bytes.Contains(body, []byte("<form")) {
		c.hist("handler-reply", origin+":no-page")
		return
	}
	c.hist("handler-reply", origin+":page")
	p := tokenizePage(body, true)
	msg := ""
	if len(p.Forms) > 0 {
		for _, h := range p.Forms[0].Hidden {
			if h[0] == "SAMLResponse" {
				msg = h[1]
			}
		}
	}
	check(c17Case{Which: which, URL: u[1], Relay: r[1], Msg: msg, Origin: origin, LabelU: u[0], LabelR: r[0]}, body)
}

var _ = io.EOF
