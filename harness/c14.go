package main

// C14 — decompression of request payloads is bounded: allocation measurement around one ServeHTTP call.

import (
	"bytes"
	"compress/flate"
	"compress/gzip"
	"compress/zlib"
	"encoding/base64"
	"fmt"
	"io"
	"net/url"
	"runtime"
	"strings"
	"time"

	samlxml "github.com/zitadel/saml/pkg/provider/xml"
)

func init() { props["C14"] = runC14 }

const c14Cap = 10 << 20 // "of the order of the 10 MB cap net/http places on form bodies"

// bomb builds a DEFLATE+base64 payload that inflates to a valid-looking AuthnRequest/LogoutRequest with `pad` bytes of padding.
func bomb(kind, place string, pad int, now time.Time) (payload string, inflated int) {
	return bombIn("raw", kind, place, pad, now)
}

// bombIn: the same message in a raw DEFLATE stream (what the bindings specify), or wrapped as a zlib (RFC 1950) or
// gzip (RFC 1952) container, which some stacks emit and lenient decoders accept
func bombIn(container, kind, place string, pad int, now time.Time) (payload string, inflated int) {
	if container == "multistream" {
		return bombMulti(kind, place, pad, now)
	}
	var buf bytes.Buffer
	var w io.WriteCloser
	switch container {
	case "zlib":
		w, _ = zlib.NewWriterLevel(&buf, 6)
	case "gzip":
		w, _ = gzip.NewWriterLevel(&buf, 6)
	default:
		w, _ = flate.NewWriter(&buf, 6)
	}
	write := func(s string) { w.Write([]byte(s)); inflated += len(s) }
	padding := func() {
		chunk := bytes.Repeat([]byte(" "), 1<<20)
		for left := pad; left > 0; left -= len(chunk) {
			if left < len(chunk) {
				chunk = chunk[:left]
			}
			w.Write(chunk)
			inflated += len(chunk)
		}
	}
	root := "AuthnRequest"
	if kind == "logout" {
		root = "LogoutRequest"
	}
	if place == "pre-root-comment" {
		write("<!--")
		padding()
		write("-->")
	}
	write(fmt.Sprintf(`<samlp:%s xmlns:samlp="%s" xmlns:saml="%s" ID="id-bomb" Version="2.0" IssueInstant="%s"`, root, nsProtocol, nsAssertion, now.UTC().Format("2006-01-02T15:04:05Z")))
	if place == "attribute" {
		write(` ProviderName="`)
		padding()
		write(`"`)
	}
	write(">")
	if place == "comment" {
		write("<!--")
		padding()
		write("-->")
	}
	write(`<saml:Issuer>` + spEntity)
	if place == "text" {
		padding()
	}
	write(`</saml:Issuer>`)
	if kind == "logout" {
		write(`<saml:NameID>alice</saml:NameID>`)
	}
	write(fmt.Sprintf(`</samlp:%s>`, root))
	if place == "after-root" {
		padding()
	}
	if place == "garbage" {
		write("<<<")
		padding()
	}
	w.Close()
	return base64.StdEncoding.EncodeToString(buf.Bytes()), inflated
}

// bombMulti: the same message as several complete DEFLATE streams back to back (each ends with a final block), every one
// of them inflating to at most 8 MiB - a decoder that restarts on the remaining input must bound the whole message,
// not each stream
func bombMulti(kind, place string, pad int, now time.Time) (string, int) {
	one, _ := bombIn("raw", kind, place, 0, now) // the message itself
	msg, _ := base64.StdEncoding.DecodeString(one)
	plain, _ := inflateAll(msg)
	var out bytes.Buffer
	// what the payload inflates to: a DEFLATE stream ends with its final block, so a conformant inflater yields the first
	// stream only; the further streams are trailing bytes it never reads (a decoder that goes on reading them materialises
	// more than the payload's inflated size - the allocation budget is what bounds that)
	total, first := 0, -1
	emit := func(b []byte) {
		w, _ := flate.NewWriter(&out, 6)
		w.Write(b)
		w.Close()
		if first < 0 {
			first = len(b)
		}
		total += len(b)
	}
	cut := len(plain)
	if place == "after-root" || place == "garbage" {
		emit(plain)
		cut = 0
	} else {
		// padding goes into a comment in front of the root, split over streams
		emit([]byte("<!--"))
	}
	chunk := bytes.Repeat([]byte(" "), 8<<20)
	for left := pad; left > 0; left -= len(chunk) {
		if left < len(chunk) {
			chunk = chunk[:left]
		}
		emit(chunk)
	}
	if cut > 0 {
		emit([]byte("-->"))
		emit(plain)
	}
	_ = total
	return base64.StdEncoding.EncodeToString(out.Bytes()), first
}

func runC14(c *Ctx) {
	c.rep.Rule = "DEFLATE payloads inflating to 1 MiB .. N MiB (N = 64 quick, 1024 thorough) with the padding in a comment, in text, in an attribute value, after the root element or after malformed XML, on the SSO endpoint (query and form) and the logout endpoint (query and form); for each: TotalAlloc delta around one ServeHTTP call and the acceptance outcome. Non-trivial = inflated size above the cap; distinct = (endpoint, transport, placement, size)."
	initKeys()
	sizes := []int{1, 4, 9, 11, 16, 64}
	if c.thorough() {
		sizes = append(sizes, 256, 1024)
	}
	places := []string{"comment", "text", "attribute", "after-root", "garbage", "pre-root-comment"}
	type ep struct{ name, path, kind, transport string }
	eps := []ep{{"sso-query", "/SSO", "authn", "query"}, {"sso-form", "/SSO", "authn", "form"}, {"slo-form", "/SLO", "logout", "form"}, {"slo-query", "/SLO", "logout", "query"}}
	now := time.Now()
	stop := false
	for _, mb := range sizes {
		for _, place := range places {
			if !c.thorough() && mb >= 64 && place != "comment" && place != "after-root" && place != "attribute" && place != "pre-root-comment" {
				continue
			}
			for _, container := range []string{"raw", "zlib", "gzip", "multistream"} {
				if container != "raw" && place != "comment" && place != "after-root" {
					continue
				}
				payload, inflated := bombIn(container, "authn", place, mb<<20, now)
				payloadL, _ := bombIn(container, "logout", place, mb<<20, now)
				for _, e := range eps {
					if stop {
						break
					}
					st := newStorage()
					_ = st.Register(SPSpec{EntityID: spEntity, AppID: "app-1", ReqSigned: "-", Certs: []string{spKeys.B64}, Acs: acsFor("post"), Slo: []string{"https://sp.example.com/slo"}})
					prov, err := newProvider(st, defaultIdpCfg())
					if err != nil {
						panic(err)
					}
					pl := payload
					if e.kind == "logout" {
						pl = payloadL
					}
					form := url.Values{"SAMLRequest": {pl}, "RelayState": {"rs"}}
					req := HTTPReq{Path: e.path}
					if e.transport == "query" {
						req.Method, req.Query = "GET", form.Encode()
					} else {
						form.Set("SAMLEncoding", samlxml.EncodingDeflate)
						req.Method, req.Body, req.CType = "POST", form.Encode(), "application/x-www-form-urlencoded"
					}
					runtime.GC()
					var m0, m1 runtime.MemStats
					runtime.ReadMemStats(&m0)
					rep := serve(prov.HttpHandler(), req)
					runtime.ReadMemStats(&m1)
					alloc := int64(m1.TotalAlloc - m0.TotalAlloc)
					d := classify(rep)
					c.rep.Evaluations++
					accepted := len(st.CallsOf("CreateAuthRequest")) > 0 || (d.Msg != nil && strings.HasSuffix(d.Msg.Status, ":Success"))
					key := fmt.Sprintf("%s/%s/%s/%dMiB", e.name, container, place, mb)
					if inflated > c14Cap {
						c.nontrivial(key)
					}
					c.hist("inflated-MiB", fmt.Sprint(mb))
					c.hist("accepted", fmt.Sprint(accepted))
					detail := map[string]interface{}{"endpoint": e.name, "container": container, "placement": place, "inflated_bytes": inflated, "request_bytes": len(req.Query) + len(req.Body),
						"total_alloc_bytes": alloc, "accepted": accepted, "reply_kind": d.Kind, "reply_code": rep.Code}
					if c.rep.Evaluations%7 == 1 {
						c.sample(detail)
					}
					// the fixed amount: a small multiple of the cap, independent of the inflated size, plus the request itself
					budget := int64(16*c14Cap) + 8*int64(len(req.Query)+len(req.Body))
					if alloc > budget {
						c.issue(Issue{Kind: "violation", What: fmt.Sprintf("one request allocated %d MiB while decoding a payload inflating to %d MiB (budget %d MiB)", alloc>>20, inflated>>20, budget>>20),
							Site: "xml.InflateAndDecode", Class: "unbounded-allocation:" + e.name, Detail: detail})
						if mb >= 64 {
							stop = true // do not escalate further once the bound is known to be violated
						}
					}
					if inflated > c14Cap && accepted {
						c.issue(Issue{Kind: "violation", What: fmt.Sprintf("request whose payload inflates to %d MiB was accepted", inflated>>20), Site: "xml.InflateAndDecode", Class: "oversized-accepted:" + e.name, Detail: detail})
					}
					if rep.Panicked {
						c.issue(Issue{Kind: "violation", What: "panic: " + strings.SplitN(rep.PanicMsg, "\n", 2)[0], Site: "xml.InflateAndDecode", Class: "panic", Detail: detail})
					}
				}
			}
		}
	}
	// model side: the generated InflateAndDecode on stream descriptions (materialised bytes)
	c14Model(c)
}

var c14Model = func(c *Ctx) {}
