package main

// xml.Marshal results must stay what they were: the bytes one call returned are signed, deflated and written later, while
// other messages are marshalled (C04: the signature must cover the bytes sent; C18: what is sent is the encoding of the
// message).  A result that aliases memory a later call reuses would change under its holder.

import (
	"bytes"
	"fmt"
	"strings"
	"sync"

	samlxml "github.com/zitadel/saml/pkg/provider/xml"
	"github.com/zitadel/saml/pkg/provider/xml/samlp"
)

func marshalStability(c *Ctx, site string) {
	mk := func(round, i int) *samlp.ResponseType {
		return &samlp.ResponseType{Id: fmt.Sprintf("_r%d-%02d", round, i), Version: "2.0", InResponseTo: strings.Repeat(string(rune('a'+i)), 30+7*i), Destination: fmt.Sprintf("https://sp%d.example.com/acs", i)}
	}
	for round := 0; round < 3; round++ {
		n := 12
		outs := make([][]byte, n)
		copies := make([][]byte, n)
		if round == 2 {
			var wg sync.WaitGroup
			for i := 0; i < n; i++ {
				wg.Add(1)
				go func(i int) {
					defer wg.Done()
					for k := 0; k < 20; k++ {
						b, _ := samlxml.Marshal(mk(round, i))
						cp := append([]byte(nil), b...)
						// keep the result for a moment while the others marshal
						for j := 0; j < 200; j++ {
							if !bytes.Equal(b, cp) {
								break
							}
						}
						outs[i], copies[i] = b, cp
					}
				}(i)
			}
			wg.Wait()
		} else {
			for i := 0; i < n; i++ {
				b, _ := samlxml.Marshal(mk(round, i))
				outs[i] = b
				copies[i] = append([]byte(nil), b...)
			}
		}
		for i := 0; i < n; i++ {
			c.rep.Evaluations++
			want := fmt.Sprintf("_r%d-%02d", round, i)
			if !bytes.Equal(outs[i], copies[i]) || !bytes.Contains(outs[i], []byte(want)) {
				c.issue(Issue{Kind: "violation", What: fmt.Sprintf("bytes returned by xml.Marshal changed while %d further messages were marshalled (the bytes that are signed are not the bytes that are sent)", n-i-1),
					Site: site, Class: "marshal-result-aliased", Detail: map[string]interface{}{"round": round, "index": i, "as_returned": string(copies[i]), "now": string(outs[i])}})
				return
			}
		}
	}
	c.hist("marshal-stability", "ok")
}
