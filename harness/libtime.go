package main

// Lib.Time.parseDefault (the Lean model of time.Parse with the library's DefaultTimeFormat) against time.Parse.

import (
	"fmt"
	"strings"
	"time"
	"unicode/utf8"

	"github.com/zitadel/saml/pkg/provider"
)

func timeParseWant(s string) string {
	t, err := time.Parse(provider.DefaultTimeFormat, s)
	if err != nil {
		return "-"
	}
	return fmt.Sprintf("+ %d %d", t.Unix(), t.Nanosecond())
}

func libTimeParse(c *Ctx) {
	rng := c.rng.fork()
	b := &batch{c: c, site: "lib timeparse"}
	add := func(s string) {
		if !utf8.ValidString(s) {
			return
		}
		s2 := s
		want := timeParseWant(s)
		if want == "-" {
			c.hist("timeparse", "error")
		} else {
			c.hist("timeparse", "ok")
		}
		b.add("lib timeparse "+tokStr(s), want, func() map[string]interface{} { return map[string]interface{}{"value": s2} })
		c.rep.Evaluations++
	}
	corpus := []string{"", "Z", "2024-01-01T00:00:00Z", "2024-01-01T00:00:00", "2024-01-01T00:00:00z", "2024-01-01t00:00:00Z", "2024-01-01 00:00:00Z", "2024-01-01T00:00:00+00:00",
		"2024-01-01T00:00:00.Z", "2024-01-01T00:00:00.0Z", "2024-01-01T00:00:00,0Z", "2024-01-01T00:00:00.123456Z", "2024-01-01T00:00:00.1234567Z", "2024-01-01T00:00:00.123456789Z",
		"2024-01-01T00:00:00.1234567891234Z", "2024-01-01T00:00:00.999999999999999999999999Z", "2024-01-01T0:00:00Z", "2024-01-01T9:59:59Z", "2024-01-01T24:00:00Z", "2024-01-01T23:60:00Z",
		"2024-01-01T23:59:60Z", "2024-01-01T23:59:59Z", "2024-02-29T00:00:00Z", "2023-02-29T00:00:00Z", "1900-02-29T00:00:00Z", "2000-02-29T00:00:00Z", "2024-02-30T00:00:00Z", "2024-04-31T00:00:00Z",
		"2024-00-10T00:00:00Z", "2024-13-10T00:00:00Z", "2024-1-10T00:00:00Z", "2024-01-1T00:00:00Z", "2024-01-00T00:00:00Z", "2024-01-32T00:00:00Z", "0000-01-01T00:00:00Z", "0001-01-01T00:00:00Z",
		"9999-12-31T23:59:59.999999999Z", "10000-01-01T00:00:00Z", "-001-01-01T00:00:00Z", "+024-01-01T00:00:00Z", "2024-01-01T00:00:00Z ", " 2024-01-01T00:00:00Z", "2024-01-01T00:00:00ZZ",
		"2024-01-01T00:00:0Z", "2024-01-01T00:0:00Z", "2024-01-01T00:00:00.5", "2024-01-01T00:00:00..5Z", "2024-01-01T00:00:00.5.5Z", "２０２４-01-01T00:00:00Z", "2024-01-01T00:00:00​Z", "yesterday",
		"1969-12-31T23:59:59.999999999Z", "1970-01-01T00:00:00Z", "2262-04-11T23:47:16.854775807Z", "2024-12-31T23:59:59,999Z", "2024-01-01T1:2:3Z", "2024-01-01T01:02:03.Z"}
	for _, s := range corpus {
		add(s)
	}
	n := 20000
	if c.thorough() {
		n = 300000
	}
	layouts := []string{provider.DefaultTimeFormat, "2006-01-02T15:04:05Z", "2006-01-02T15:04:05.000Z", "2006-01-02T15:04:05.000000000Z", "2006-01-02T3:04:05Z", "2006-01-02T15:04:05,999999Z", time.RFC3339, time.RFC3339Nano, "2006-01-02"}
	alphabet := "0123456789-T:.,Z+ z9"
	for i := 0; i < n; i++ {
		// a random instant, years 0000-9999, every month end and leap day reachable
		year := []int{0, 1, 1600, 1900, 1970, 2000, 2023, 2024, 2100, 2400, 9999, rng.intn(10000)}[rng.intn(12)]
		t := time.Date(year, time.Month(1+rng.intn(12)), 1+rng.intn(31), rng.intn(24), rng.intn(60), rng.intn(60), rng.intn(1000000000), time.UTC)
		s := t.Format(layouts[rng.intn(len(layouts))])
		switch rng.intn(5) {
		case 0, 1: // as formatted
		case 2: // free choice of day / hour / minute / second digits (out-of-range values included)
			bs := []byte(s)
			for k := 0; k < 1+rng.intn(2); k++ {
				if len(bs) > 0 {
					p := rng.intn(len(bs))
					if bs[p] >= '0' && bs[p] <= '9' {
						bs[p] = byte('0' + rng.intn(10))
					}
				}
			}
			s = string(bs)
		default: // character-level edits
			bs := []byte(s)
			for k := 0; k < 1+rng.intn(3); k++ {
				switch rng.intn(3) {
				case 0:
					if len(bs) > 0 {
						p := rng.intn(len(bs))
						bs = append(bs[:p], bs[p+1:]...)
					}
				case 1:
					p := rng.intn(len(bs) + 1)
					bs = append(bs[:p], append([]byte{alphabet[rng.intn(len(alphabet))]}, bs[p:]...)...)
				default:
					if len(bs) > 0 {
						bs[rng.intn(len(bs))] = alphabet[rng.intn(len(alphabet))]
					}
				}
			}
			s = string(bs)
		}
		add(strings.ToValidUTF8(s, "?"))
	}
	b.flush()
}
