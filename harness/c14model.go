package main

import (
	"bytes"
	"compress/flate"
	"encoding/base64"
	"io"
	"unicode/utf8"

	samlxml "github.com/zitadel/saml/pkg/provider/xml"
)

func init() { c14Model = c14ModelRun }

// realInflate describes what compress/flate delivers for data: the bytes before EOF or before the first error.
func realInflate(data []byte, max int) (out []byte, failed bool) {
	r := flate.NewReader(bytes.NewReader(data))
	defer r.Close()
	out, err := io.ReadAll(io.LimitReader(r, int64(max)))
	return out, err != nil
}

func c14ModelRun(c *Ctx) {
	if c.drv == nil {
		return
	}
	b := &batch{c: c, site: "fn InflateAndDecode"}
	docs := [][]byte{[]byte("<a/>"), []byte(""), bytes.Repeat([]byte("<x>pad</x>"), 500), []byte("héllo wörld"), {0xff, 0x00, 0x80}}
	type tc struct {
		enc string
		b64 bool
		msg string
	}
	var cases []tc
	for _, d := range docs {
		def := deflate(d)
		for _, payload := range [][]byte{def, def[:len(def)/2], append(append([]byte{}, def...), 'x', 'y'), d} {
			for _, enc := range []string{"", samlxml.EncodingDeflate, "urn:example:other"} {
				cases = append(cases, tc{enc, true, base64.StdEncoding.EncodeToString(payload)})
				if isValidUTF8(payload) {
					cases = append(cases, tc{enc, false, string(payload)})
				}
			}
		}
	}
	cases = append(cases, tc{samlxml.EncodingDeflate, true, "@@not base64@@"}, tc{"", true, "a"}, tc{"", true, "YQ=="}, tc{"", true, "YQ=\n=\r\n"})
	if c.thorough() {
		big := bytes.Repeat([]byte("0123456789abcdef"), (10<<20)/16+4)
		cases = append(cases, tc{samlxml.EncodingDeflate, true, base64.StdEncoding.EncodeToString(deflate(big))})
		cases = append(cases, tc{samlxml.EncodingDeflate, true, base64.StdEncoding.EncodeToString(deflate(big[:10<<20]))})
	}
	for _, t := range cases {
		t := t
		got, err := samlxml.InflateAndDecode(t.enc, t.b64, t.msg)
		c.rep.Evaluations++
		c.hist("codec-op", map[bool]string{true: "error", false: "ok"}[err != nil])
		// oracle: the inflater's behaviour on the bytes handed to it
		data := []byte(t.msg)
		if t.b64 {
			if d, e := base64.StdEncoding.DecodeString(t.msg); e == nil {
				data = d
			}
		}
		stream, failed := realInflate(data, 11<<20)
		ora := Ora{"inflate": tableTokens([]string{tokBytes(stream), tokBool(failed)}, nil)}
		line, e := fnLine("InflateAndDecode", ora, []string{tokStr(t.enc)}, []string{tokBool(t.b64)}, []string{tokStr(t.msg)})
		if e != nil {
			c.issue(Issue{Kind: "disagreement", What: e.Error(), Site: "fn InflateAndDecode"})
			return
		}
		want := "ok " + tokBytes(got) + " -"
		if err != nil {
			want = "ok x +"
		}
		b.addPrefix(line, want, func() map[string]interface{} { return map[string]interface{}{"encoding": t.enc, "b64": t.b64, "message_len": len(t.msg)} })
	}
	b.flush()
}

func isValidUTF8(b []byte) bool {
	for len(b) > 0 {
		r, n := utf8.DecodeRune(b)
		if r == utf8.RuneError && n == 1 {
			return false
		}
		b = b[n:]
	}
	return true
}
