package main

// The message builders go2lean translates (getIssuer, makeResponse, makeAssertion, makeLogoutResponse,
// endpointConfigToEndpoints): the real functions (through the export shim) against the generated Lean definitions on
// the same arguments, the identifier NewID() drew being handed to the model as the oracle answer of its call site.

import (
	"strings"
	"unicode/utf8"

	"github.com/zitadel/saml/pkg/provider"
	"github.com/zitadel/saml/pkg/provider/xml/saml"
	"github.com/zitadel/saml/pkg/provider/xml/samlp"
)

func init() { props["builders"] = buildersDiff }

func buildersDiff(c *Ctx) {
	if c.drv == nil {
		return
	}
	mkResp, _ := provider.VerifExports["makeResponse"].(func(string, string, string, string, string, string, string) *samlp.ResponseType)
	mkAss, _ := provider.VerifExports["makeAssertion"].(func(string, string, string, string, string, string, *saml.NameIDType, []*saml.AttributeType, string, bool) *saml.AssertionType)
	mkLo, _ := provider.VerifExports["makeLogoutResponse"].(func(string, string, string, string, string, *saml.NameIDType) *samlp.LogoutResponseType)
	getIss, _ := provider.VerifExports["getIssuer"].(func(string) *saml.NameIDType)
	epc, _ := provider.VerifExports["endpointConfigToEndpoints"].(func(*provider.EndpointConfig) *provider.Endpoints)
	if mkResp == nil || mkAss == nil || mkLo == nil || getIss == nil || epc == nil {
		c.issue(Issue{Kind: "disagreement", What: "a translated builder is not exported by the shim with the expected signature (renamed or re-typed)", Site: "fn builders"})
		return
	}
	rng := c.rng.fork()
	b := &batch{c: c, site: "fn builders"}
	str := func() string {
		s := []string{"", "x", "https://sp.example.com/acs?a=1&b=2", "id-4711", "a&b<c>\"d'", "  lead ", "日本語𝄞", "urn:x"}[rng.intn(8)]
		if !utf8.ValidString(s) {
			return "x"
		}
		return s
	}
	n := 300
	if c.thorough() {
		n = 5000
	}
	for i := 0; i < n; i++ {
		c.rep.Evaluations++
		// makeResponse
		a := []string{str(), str(), str(), str(), str(), str(), str()}
		r := mkResp(a[0], a[1], a[2], a[3], a[4], a[5], a[6])
		line, err := fnLine("makeResponse", nil, []string{tokStr(a[0])}, []string{tokStr(a[1])}, []string{tokStr(a[2])}, []string{tokStr(a[3])}, []string{tokStr(a[4])}, []string{tokStr(a[5])}, []string{tokStr(a[6])})
		if err == nil {
			b.add(line, "ok "+strings.Join(mustEnc("Option samlp_ResponseType", r), " "), func() map[string]interface{} { return map[string]interface{}{"fn": "makeResponse", "args": a} })
		}
		// makeAssertion
		var nameID *saml.NameIDType
		if rng.chance(80) {
			nameID = &saml.NameIDType{Format: str(), Text: str()}
		}
		var attrs []*saml.AttributeType
		for k := rng.intn(4); k > 0; k-- {
			attrs = append(attrs, &saml.AttributeType{Name: str(), NameFormat: str(), FriendlyName: str(), AttributeValue: []string{str(), str()}[:rng.intn(3)]})
		}
		m := []string{str(), str(), str(), str(), str(), str(), str()}
		authN := rng.bool()
		as := mkAss(m[0], m[1], m[2], m[3], m[4], m[5], nameID, attrs, m[6], authN)
		ora := Ora{"newID": tableTokens([]string{tokStr(as.Id)}, nil)}
		line, err = fnLine("makeAssertion", ora, []string{tokStr(m[0])}, []string{tokStr(m[1])}, []string{tokStr(m[2])}, []string{tokStr(m[3])}, []string{tokStr(m[4])}, []string{tokStr(m[5])},
			mustEnc("Option saml_NameIDType", nameID), mustEnc("List (Option saml_AttributeType)", attrs), []string{tokStr(m[6])}, []string{tokBool(authN)})
		if err == nil {
			b.add(line, "ok "+strings.Join(mustEnc("Option saml_AssertionType", as), " "), func() map[string]interface{} { return map[string]interface{}{"fn": "makeAssertion", "args": m, "authN": authN} })
		} else {
			c.issue(Issue{Kind: "disagreement", What: err.Error(), Site: "fn builders"})
			return
		}
		// makeLogoutResponse
		l := []string{str(), str(), str(), str(), str()}
		lo := mkLo(l[0], l[1], l[2], l[3], l[4], nameID)
		ora = Ora{"newID": tableTokens([]string{tokStr(lo.Id)}, nil)}
		line, err = fnLine("makeLogoutResponse", ora, []string{tokStr(l[0])}, []string{tokStr(l[1])}, []string{tokStr(l[2])}, []string{tokStr(l[3])}, []string{tokStr(l[4])}, mustEnc("Option saml_NameIDType", nameID))
		if err == nil {
			b.add(line, "ok "+strings.Join(mustEnc("Option samlp_LogoutResponseType", lo), " "), func() map[string]interface{} { return map[string]interface{}{"fn": "makeLogoutResponse", "args": l} })
		}
		// getIssuer
		is := str()
		line, err = fnLine("getIssuer", nil, []string{tokStr(is)})
		if err == nil {
			b.add(line, "ok "+strings.Join(mustEnc("Option saml_NameIDType", getIss(is)), " "), func() map[string]interface{} { return map[string]interface{}{"fn": "getIssuer", "arg": is} })
		}
		// endpointConfigToEndpoints
		var conf *provider.EndpointConfig
		if rng.chance(80) {
			conf = &provider.EndpointConfig{}
			pick := func() *provider.Endpoint {
				switch rng.intn(3) {
				case 0:
					return nil
				case 1:
					e := provider.NewEndpoint(str())
					return &e
				}
				e := provider.NewEndpointWithURL(str(), str())
				return &e
			}
			conf.Certificate, conf.Callback, conf.SingleSignOn, conf.SingleLogOut, conf.Attribute = pick(), pick(), pick(), pick(), pick()
		}
		line, err = fnLine("endpointConfigToEndpoints", nil, mustEnc("Option provider_EndpointConfig", conf))
		if err == nil {
			cf := conf
			b.add(line, "ok "+strings.Join(mustEnc("Option provider_Endpoints", epc(conf)), " "), func() map[string]interface{} { return map[string]interface{}{"fn": "endpointConfigToEndpoints", "conf": cf} })
		} else {
			c.issue(Issue{Kind: "disagreement", What: err.Error(), Site: "fn builders"})
			return
		}
	}
	b.flush()
}
