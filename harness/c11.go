package main

// C11 — published metadata vs. what the provider does.

import (
	"bytes"
	"encoding/base64"
	"encoding/pem"
	"encoding/xml"
	"fmt"
	"io"
	"net/url"
	"strings"
	"time"

	"github.com/zitadel/saml/pkg/provider"
)

func init() { props["C11"] = runC11 }

type mdDoc struct {
	EntityID   string
	Want       string
	SSO        []string
	SLO        []string
	Attr       []string
	Certs      []string // signing certificates (base64)
	Signed     bool
	WellFormed bool
}

func parseMetadata(body string) mdDoc {
	var d mdDoc
	dec := xml.NewDecoder(strings.NewReader(body))
	var path []string
	keyUse := ""
	docs := 0
	for {
		tok, err := dec.Token()
		if err == io.EOF {
			d.WellFormed = docs == 1
			return d
		}
		if err != nil {
			return d
		}
		switch t := tok.(type) {
		case xml.StartElement:
			if len(path) == 0 {
				docs++
			}
			path = append(path, t.Name.Local)
			get := func(n string) string {
				for _, a := range t.Attr {
					if a.Name.Local == n {
						return a.Value
					}
				}
				return ""
			}
			in := func(n string) bool {
				for _, p := range path {
					if p == n {
						return true
					}
				}
				return false
			}
			switch t.Name.Local {
			case "EntityDescriptor":
				d.EntityID = get("entityID")
			case "IDPSSODescriptor":
				d.Want = get("WantAuthnRequestsSigned")
			case "SingleSignOnService":
				d.SSO = append(d.SSO, get("Location"))
			case "SingleLogoutService":
				d.SLO = append(d.SLO, get("Location"))
			case "AttributeService":
				d.Attr = append(d.Attr, get("Location"))
			case "KeyDescriptor":
				keyUse = get("use")
			case "SignatureValue":
				d.Signed = true
			case "X509Certificate":
				if in("IDPSSODescriptor") && keyUse == "signing" && !in("Signature") {
					var s string
					if dec.DecodeElement(&s, &t) == nil {
						d.Certs = append(d.Certs, strings.TrimSpace(s))
						path = path[:len(path)-1]
					}
				}
			}
		case xml.EndElement:
			if len(path) > 0 {
				path = path[:len(path)-1]
			}
		}
	}
}

type c11Config struct {
	name   string
	cfg    IdpCfg
	issuer func(host string) string // the issuer in effect for a request host
}

func runC11(c *Ctx) {
	buildersDiff(c)
	c.rep.Rule = "provider configurations (static issuer with/without path and trailing slash; host-derived issuer; each endpoint default / custom path with and without leading slash / external URL; custom metadata path; WantAuthRequestsSigned in {'', false, true, 1}; encryption algorithm; organisation/contact; metadata signing) x request hosts: GET metadata, then a request to every advertised path-configured location, the certificate endpoint, and an unsigned SSO request. Non-trivial = metadata was served; distinct = (configuration, host)."
	initKeys()
	ep := func(p string) *provider.Endpoint { e := provider.NewEndpoint(p); return &e }
	epURL := func(p, u string) *provider.Endpoint { e := provider.NewEndpointWithURL(p, u); return &e }
	static := func(iss string) func(string) string { return func(string) string { return iss } }
	var cfgs []c11Config
	for _, iss := range []string{"https://idp.example.com", "https://idp.example.com/", "https://idp.example.com/saml", "https://idp.example.com/saml/", "https://idp.example.com:8443/a/b"} {
		cf := defaultIdpCfg()
		cf.Issuer = iss
		cfgs = append(cfgs, c11Config{"static:" + iss, cf, static(iss)})
	}
	for _, want := range []string{"false", "true", "1", "0", "TRUE"} {
		cf := defaultIdpCfg()
		cf.WantSigned = want
		cfgs = append(cfgs, c11Config{"want:" + want, cf, static(cf.Issuer)})
	}
	{
		cf := defaultIdpCfg()
		cf.Endpoints = &provider.EndpointConfig{SingleSignOn: ep("sso-custom"), SingleLogOut: ep("/custom/slo"), Attribute: ep("attr"), Certificate: ep("/cert.pem"), Callback: ep("cb")}
		cfgs = append(cfgs, c11Config{"custom-paths", cf, static(cf.Issuer)})
		cf2 := defaultIdpCfg()
		cf2.Endpoints = &provider.EndpointConfig{SingleSignOn: epURL("SSO", "https://gateway.example.com/x/sso"), Attribute: epURL("attribute", "https://gateway.example.com/x/attr")}
		cfgs = append(cfgs, c11Config{"external-urls", cf2, static(cf2.Issuer)})
		cfs := defaultIdpCfg()
		cfs.Endpoints = &provider.EndpointConfig{SingleSignOn: ep("/v2/SSO/"), SingleLogOut: ep("v2/SLO/"), Attribute: ep("/v2/attribute/"), Certificate: ep("/v2/cert/"), Callback: ep("/v2/login/")}
		cfgs = append(cfgs, c11Config{"trailing-slash-paths", cfs, static(cfs.Issuer)})
		cfn := defaultIdpCfg()
		cfn.Endpoints = &provider.EndpointConfig{SingleSignOn: ep("/saml"), SingleLogOut: ep("/saml/logout"), Attribute: ep("/saml/attributes"), Certificate: ep("/saml/certificate/pem"), Callback: ep("/saml/login")}
		cfgs = append(cfgs, c11Config{"nested-paths", cfn, static(cfn.Issuer)})
		cf3 := defaultIdpCfg()
		cf3.MetadataEP = ep("/meta/data.xml")
		cfgs = append(cfgs, c11Config{"metadata-path", cf3, static(cf3.Issuer)})
		cf4 := defaultIdpCfg()
		cf4.EncAlg = "http://www.w3.org/2001/04/xmlenc#aes256-cbc"
		cf4.Org = &provider.Organisation{Name: "Org & <Co>", DisplayName: "Org", URL: "https://org.example.com/?a=1&b=2"}
		cf4.Contact = &provider.ContactPerson{ContactType: "technical", Company: "C", GivenName: "G", SurName: "S", EmailAddress: "a@b.c", TelephoneNumber: "+1"}
		cf4.MetaSigAlg = algRSASHA256
		cfgs = append(cfgs, c11Config{"signed-org-contact-enc", cf4, static(cf4.Issuer)})
	}
	for _, path := range []string{"", "/saml", "saml/"} {
		cf := defaultIdpCfg()
		cf.Issuer, cf.IssuerPath = "", path
		p := path
		cfgs = append(cfgs, c11Config{"host-derived:" + path, cf, func(host string) string {
			np := p
			if np != "" && !strings.HasPrefix(np, "/") {
				np = "/" + np
			}
			return "https://" + host + np
		}})
	}
	hosts := []string{"idp.example.com", "other.example.org:8443"}
	now := time.Now()
	b := &batch{c: c, site: "md op"}
	for _, cc := range cfgs {
		for _, host := range hosts {
			st := newStorage()
			_ = st.Register(SPSpec{EntityID: spEntity, AppID: "app-1", ReqSigned: "-", Certs: []string{spKeys.B64}, Acs: acsFor("post"), Slo: []string{"https://sp.example.com/slo"}})
			prov, err := newProvider(st, cc.cfg)
			if err != nil {
				c.issue(Issue{Kind: "violation", What: "provider construction failed: " + err.Error(), Site: "NewProvider", Class: "construct:" + cc.name})
				continue
			}
			c.rep.Evaluations++
			issuer := cc.issuer(host)
			mdPath := "/metadata"
			if cc.cfg.MetadataEP != nil {
				mdPath = cc.cfg.MetadataEP.Relative()
			}
			rep := serve(prov.HttpHandler(), HTTPReq{Method: "GET", Path: mdPath, Host: host})
			detail := map[string]interface{}{"config": cc.name, "host": host, "issuer": issuer}
			bad := func(what, class string) {
				c.issue(Issue{Kind: "violation", What: what, Site: "metadata", Class: class + ":" + strings.SplitN(cc.name, ":", 2)[0], Detail: detail})
			}
			if rep.Code != 200 {
				bad(fmt.Sprintf("metadata endpoint answered HTTP %d", rep.Code), "not-served")
				continue
			}
			d := parseMetadata(rep.Body)
			c.nontrivial(cc.name + "|" + host)
			detail["entityID"], detail["sso"], detail["want"] = d.EntityID, d.SSO, d.Want
			if !d.WellFormed || d.EntityID == "" {
				bad("metadata is not a single well-formed EntityDescriptor", "malformed")
				continue
			}
			wantEntity := strings.TrimSuffix(issuer, "/") + mdPath
			if d.EntityID != wantEntity {
				bad("entityID is not the metadata endpoint's absolute URL for the issuer in effect", "entity-id")
			}
			if d.Signed != (cc.cfg.MetaSigAlg != "") {
				bad("metadata signature presence differs from the configuration", "signed")
			}
			// certificate endpoint vs KeyDescriptor vs the key responses are signed with
			certPath := "/certificate"
			if cc.cfg.Endpoints != nil && cc.cfg.Endpoints.Certificate != nil {
				certPath = cc.cfg.Endpoints.Certificate.Relative()
			}
			crep := serve(prov.HttpHandler(), HTTPReq{Method: "GET", Path: certPath, Host: host})
			blk, _ := pem.Decode([]byte(crep.Body))
			if blk == nil || len(d.Certs) == 0 || base64.StdEncoding.EncodeToString(blk.Bytes) != strings.Join(strings.Fields(d.Certs[0]), "") || !bytes.Equal(blk.Bytes, idpKeys.Cert) {
				bad("signing KeyDescriptor, certificate endpoint and response-signing certificate differ", "certificate")
			}
			// every advertised path-configured location maps onto the route with the corresponding handler
			probe := func(kind string, locs []string, req HTTPReq, expect func(Delivered, Reply) bool) {
				for _, loc := range locs {
					if !strings.HasPrefix(loc, strings.TrimSuffix(issuer, "/")) {
						if strings.HasPrefix(loc, "https://gateway.example.com/") {
							continue // endpoint configured with an external URL
						}
						bad(kind+" location is not under the issuer", "location-prefix")
						continue
					}
					req.Path = strings.TrimPrefix(loc, strings.TrimSuffix(issuer, "/"))
					req.Host = host
					r := serve(prov.HttpHandler(), req)
					dl := classify(r)
					if !expect(dl, r) {
						detail["probe"] = map[string]interface{}{"kind": kind, "location": loc, "path": req.Path, "code": r.Code, "reply": dl.Kind}
						bad("advertised "+kind+" location is not served by the "+kind+" handler", "route:"+kind)
					}
					if dl.Msg != nil && dl.Msg.Issuer != "" && dl.Msg.Issuer != d.EntityID {
						bad("Issuer of the "+kind+" reply differs from the metadata entityID", "issuer:"+kind)
					}
				}
			}
			probe("sso", d.SSO, HTTPReq{Method: "GET"}, func(dl Delivered, r Reply) bool {
				return dl.Msg != nil && dl.Msg.Inner == "Response" && strings.Contains(dl.Msg.StatusMessage, "no auth request")
			})
			probe("slo", d.SLO, HTTPReq{Method: "POST", CType: "application/x-www-form-urlencoded"}, func(dl Delivered, r Reply) bool {
				return dl.Msg != nil && dl.Msg.Inner == "LogoutResponse"
			})
			probe("attribute", d.Attr, HTTPReq{Method: "POST", Body: "x"}, func(dl Delivered, r Reply) bool {
				return r.Code == 500 && strings.Contains(r.Body, "failed to decode request")
			})
			// WantAuthnRequestsSigned advertised as true exactly when unsigned requests are refused
			authn := AuthnSpec{ID: "id-1", Version: "2.0", IssueInstant: now.UTC().Format("2006-01-02T15:04:05Z"), Destination: "-", ProtocolBinding: "-", AcsURL: "-", AcsIndex: "-", Issuer: spEntity, NotBefore: "-", NotOnOrAfter: "-"}.XML()
			ssoPath := "/SSO"
			if cc.cfg.Endpoints != nil && cc.cfg.Endpoints.SingleSignOn != nil {
				ssoPath = cc.cfg.Endpoints.SingleSignOn.Relative()
			}
			st.ResetLog()
			serve(prov.HttpHandler(), HTTPReq{Method: "GET", Path: ssoPath, Host: host, Query: url.Values{"SAMLRequest": {deflateB64(authn)}}.Encode()})
			accepted := len(st.CallsOf("CreateAuthRequest")) > 0
			advertisedTrue := d.Want == "true" || d.Want == "1"
			c.hist("want", fmt.Sprintf("advertised=%q refused=%v", d.Want, !accepted))
			if advertisedTrue == accepted {
				bad(fmt.Sprintf("WantAuthnRequestsSigned=%q advertised but unsigned request accepted=%v", d.Want, accepted), "want-signed")
			}
			if c.rep.Evaluations%5 == 1 {
				c.sample(detail)
			}
			// model: advertised locations and routes
			if c.drv != nil {
				eps := provider.EndpointConfig{}
				if cc.cfg.Endpoints != nil {
					eps = *cc.cfg.Endpoints
				}
				one := func(e *provider.Endpoint, dflt string) []string {
					if e == nil {
						x := provider.NewEndpoint(dflt)
						e = &x
					}
					ext := ""
					if a := e.Absolute("\x00"); !strings.HasPrefix(a, "\x00") {
						ext = a
					}
					return []string{tokStr(strings.TrimPrefix(e.Relative(), "/")), tokStr(ext)}
				}
				ot, _ := meta.oraTokens(nil)
				toks := append([]string{"md"}, ot...)
				toks = append(toks, tokStr(issuer))
				toks = append(toks, one(eps.Certificate, "certificate")...)
				toks = append(toks, one(eps.Callback, "login")...)
				toks = append(toks, one(eps.SingleSignOn, "SSO")...)
				toks = append(toks, one(eps.SingleLogOut, "SLO")...)
				toks = append(toks, one(eps.Attribute, "attribute")...)
				toks = append(toks, one(cc.cfg.MetadataEP, "/metadata")...)
				first := func(xs []string) string {
					if len(xs) == 0 {
						return ""
					}
					return xs[0]
				}
				callbackRel := "/login"
				if eps.Callback != nil {
					callbackRel = eps.Callback.Relative()
				}
				sloRel, attrRel := "/SLO", "/attribute"
				if eps.SingleLogOut != nil {
					sloRel = eps.SingleLogOut.Relative()
				}
				if eps.Attribute != nil {
					attrRel = eps.Attribute.Relative()
				}
				certAbs := strings.TrimSuffix(issuer, "/") + certPath
				want := strings.Join([]string{tokStr(d.EntityID), tokStr(first(d.SSO)), tokStr(first(d.SLO)), tokStr(first(d.Attr)), tokStr(certAbs),
					tokStr("/healthz"), tokStr("/ready"), tokStr(mdPath), tokStr(certPath), tokStr(callbackRel), tokStr(ssoPath), tokStr(sloRel), tokStr(attrRel)}, " ")
				b.add(strings.Join(toks, " "), want, func() map[string]interface{} { return detail })
			}
		}
	}
	b.flush()
}
