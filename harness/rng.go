package main

// splitmix64: every random choice of a run derives from VERIF_SEED through this state.
type Rng struct{ s uint64 }

func newRng(seed uint64) *Rng { return &Rng{s: seed*0x9E3779B97F4A7C15 + 0x1234567} }

func (r *Rng) next() uint64 {
	r.s += 0x9E3779B97F4A7C15
	z := r.s
	z = (z ^ (z >> 30)) * 0xBF58476D1CE4E5B9
	z = (z ^ (z >> 27)) * 0x94D049BB133111EB
	return z ^ (z >> 31)
}
func (r *Rng) intn(n int) int {
	if n <= 0 {
		return 0
	}
	return int(r.next() % uint64(n))
}
func (r *Rng) bool() bool        { return r.next()&1 == 1 }
func (r *Rng) chance(p int) bool { return r.intn(100) < p }
func (r *Rng) pick(xs []string) string {
	return xs[r.intn(len(xs))]
}
func (r *Rng) fork() *Rng { return &Rng{s: r.next()} }
