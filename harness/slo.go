package main

// Logout (SLO) case domain and monitors (C13; logout slices of C02, C07, C09).

import (
	"encoding/base64"
	"fmt"
	"net/url"
	"strings"
	"time"

	"github.com/zitadel/saml/pkg/provider"
	samlxml "github.com/zitadel/saml/pkg/provider/xml"
)

var sloDims = []dim{
	{"transport", []string{"post-body", "get-query"}},
	{"encoding", []string{"default", "deflate", "bogus"}},
	{"relay", []string{"rs-1", "", "meta", "edge-space"}},
	{"payload", []string{"logout", "empty", "badb64", "notxml", "wrongroot"}},
	{"id", []string{"set", "absent", "meta"}},
	{"issuer", []string{"registered", "absent", "unregistered"}},
	{"nameid", []string{"present", "absent"}},
	{"sessionindex", []string{"absent", "present"}},
	{"issueinstant", []string{"past", "future", "empty", "garbage", "past-frac", "future-offset"}},
	{"notonorafter", []string{"absent", "future", "past", "garbage", "zero-time", "past-offset"}},
	{"slo", []string{"one", "none", "two"}},
	{"lookup", []string{"ok", "fail"}},
	{"style", []string{"0", "1"}},
}

func sloBase() Case {
	c := Case{}
	for _, d := range sloDims {
		c[d.name] = d.vals[0]
	}
	return c
}

type SloRun struct {
	Case    Case
	Req     HTTPReq
	Doc     string
	Reply   Reply
	Deliv   Delivered
	Calls   []StorageCall
	Storage *Storage
	Prov    *provider.Provider
	SloURLs []string
	ReqID   string
	Relay   string
	Deflate bool
}

func logoutXML(c Case, now time.Time) (string, string) {
	p, a := "samlp:", "saml:"
	ns := fmt.Sprintf(` xmlns:samlp="%s" xmlns:saml="%s"`, nsProtocol, nsAssertion)
	if c["style"] == "1" {
		p, a = "", "a:"
		ns = fmt.Sprintf(` xmlns="%s" xmlns:a="%s"`, nsProtocol, nsAssertion)
	}
	var b strings.Builder
	if c["style"] == "1" {
		b.WriteString(`<?xml version="1.0" encoding="UTF-8"?>` + "\n")
	}
	fmt.Fprintf(&b, `<%sLogoutRequest%s Version="2.0"`, p, ns)
	id := "lr-4711"
	switch c["id"] {
	case "absent":
		id = ""
	case "meta":
		id = "lr&<\"'> 1"
	}
	if c["id"] != "absent" {
		fmt.Fprintf(&b, ` ID="%s"`, xmlAttrEsc(id))
	}
	switch c["issueinstant"] {
	case "past":
		fmt.Fprintf(&b, ` IssueInstant="%s"`, now.Add(-30*time.Second).UTC().Format("2006-01-02T15:04:05Z"))
	case "past-frac":
		fmt.Fprintf(&b, ` IssueInstant="%s"`, now.Add(-30*time.Second).UTC().Format("2006-01-02T15:04:05.000Z"))
	case "future":
		fmt.Fprintf(&b, ` IssueInstant="%s"`, now.Add(10*time.Minute).UTC().Format("2006-01-02T15:04:05Z"))
	case "garbage":
		b.WriteString(` IssueInstant="now"`)
	case "future-offset":
		// an instant two hours ahead, written in a zone five hours west: its wall-clock digits lie in the past
		fmt.Fprintf(&b, ` IssueInstant="%s"`, now.Add(2*time.Hour).In(time.FixedZone("", -5*3600)).Format("2006-01-02T15:04:05-07:00"))
	}
	switch c["notonorafter"] {
	case "future":
		fmt.Fprintf(&b, ` NotOnOrAfter="%s"`, now.Add(10*time.Minute).UTC().Format("2006-01-02T15:04:05Z"))
	case "past":
		fmt.Fprintf(&b, ` NotOnOrAfter="%s"`, now.Add(-10*time.Minute).UTC().Format("2006-01-02T15:04:05Z"))
	case "garbage":
		b.WriteString(` NotOnOrAfter="later"`)
	case "zero-time":
		b.WriteString(` NotOnOrAfter="0001-01-01T00:00:00Z"`) // a valid instant, long past
	case "past-offset":
		// an instant one hour ago, written in a zone two hours east: its wall-clock digits lie in the future
		fmt.Fprintf(&b, ` NotOnOrAfter="%s"`, now.Add(-time.Hour).In(time.FixedZone("", 2*3600)).Format("2006-01-02T15:04:05-07:00"))
	}
	b.WriteString(">")
	switch c["issuer"] {
	case "registered":
		fmt.Fprintf(&b, `<%sIssuer>%s</%sIssuer>`, a, spEntity, a)
	case "unregistered":
		fmt.Fprintf(&b, `<%sIssuer>https://unknown.example.com/metadata</%sIssuer>`, a, a)
	}
	if c["nameid"] == "present" {
		fmt.Fprintf(&b, `<%sNameID>alice</%sNameID>`, a, a)
	}
	if c["sessionindex"] == "present" {
		fmt.Fprintf(&b, `<%sSessionIndex>_sess1</%sSessionIndex>`, p, p)
	}
	fmt.Fprintf(&b, `</%sLogoutRequest>`, p)
	return b.String(), id
}

func runSlo(c Case) *SloRun {
	initKeys()
	r := &SloRun{Case: c}
	st := newStorage()
	r.Storage = st
	switch c["slo"] {
	case "one":
		r.SloURLs = []string{"https://sp.example.com/slo"}
	case "two":
		r.SloURLs = []string{"https://sp.example.com/slo/first?x=1&y=\"2\"", "https://sp.example.com/slo/second"}
	}
	_ = st.Register(SPSpec{EntityID: spEntity, AppID: "app-1", ReqSigned: "-", Certs: []string{spKeys.B64}, Acs: acsFor("post"), Slo: r.SloURLs})
	if c["lookup"] == "fail" {
		st.Fail("GetEntityByID", 1)
	}
	prov, err := newProvider(st, defaultIdpCfg())
	if err != nil {
		panic(err)
	}
	r.Prov = prov
	doc, id := logoutXML(c, time.Now())
	r.Doc, r.ReqID = doc, id
	redirect := c["transport"] == "get-query"
	encParam := ""
	deflated := false
	switch c["encoding"] {
	case "default":
		deflated = redirect // a conformant Redirect-binding sender always deflates and may omit SAMLEncoding
	case "deflate":
		encParam, deflated = samlxml.EncodingDeflate, true
	case "bogus":
		encParam = "urn:example:bogus"
	}
	r.Deflate = deflated
	enc := func(s string) string {
		if deflated {
			return deflateB64(s)
		}
		return plainB64(s)
	}
	payload := ""
	switch c["payload"] {
	case "logout":
		payload = enc(doc)
	case "badb64":
		payload = "@@@"
	case "notxml":
		payload = enc("this is < not xml")
	case "wrongroot":
		payload = enc(fmt.Sprintf(`<samlp:AuthnRequest xmlns:samlp="%s" ID="x" Version="2.0"/>`, nsProtocol))
	}
	switch c["relay"] {
	case "rs-1":
		r.Relay = "rs-1"
	case "meta":
		r.Relay = metaString
	case "edge-space":
		r.Relay = " \ttoken with edges \n"
	}
	form := url.Values{}
	if payload != "" || c["payload"] != "empty" {
		form.Set("SAMLRequest", payload)
	}
	if encParam != "" {
		form.Set("SAMLEncoding", encParam)
	}
	if r.Relay != "" {
		form.Set("RelayState", r.Relay)
	}
	req := HTTPReq{Path: "/SLO"}
	if redirect {
		req.Method, req.Query = "GET", form.Encode()
	} else {
		req.Method, req.Body, req.CType = "POST", form.Encode(), "application/x-www-form-urlencoded"
	}
	r.Req = req
	st.ResetLog()
	r.Reply = serve(prov.HttpHandler(), req)
	r.Deliv = classify(r.Reply)
	r.Calls = append([]StorageCall{}, st.Calls...)
	_ = base64.StdEncoding
	return r
}

func (r *SloRun) detail() map[string]interface{} {
	d := map[string]interface{}{"case": r.Case.diffOf(sloDims), "request": r.Req, "reply_kind": r.Deliv.Kind, "reply_code": r.Reply.Code, "storage_calls": r.Calls, "document": r.Doc}
	if r.Deliv.Msg != nil {
		d["message"] = r.Deliv.Msg
	}
	if r.Deliv.Err != "" {
		d["parse_error"] = r.Deliv.Err
	}
	if r.Reply.Panicked {
		d["panic"] = strings.SplitN(r.Reply.PanicMsg, "\n", 2)[0]
	}
	if len(r.Reply.Body) < 400 {
		d["body"] = r.Reply.Body
	}
	return d
}

// validLogout: by construction the request decodes, names a registered issuer, is not issued in the future and is not expired
func (r *SloRun) decodes() bool {
	c := r.Case
	return c["payload"] == "logout" && c["encoding"] != "bogus"
}
func (r *SloRun) validLogout() bool {
	c := r.Case
	timeOK := (c["issueinstant"] == "past" || c["issueinstant"] == "past-frac" || c["issueinstant"] == "empty") && (c["notonorafter"] == "absent" || c["notonorafter"] == "future")
	return r.decodes() && c["issuer"] == "registered" && c["lookup"] == "ok" && timeOK
}

func monC13(c *Ctx, r *SloRun) {
	site := "logoutHandleFunc"
	if r.Reply.Panicked {
		return
	}
	d := r.Deliv
	bad := func(what, class string) {
		c.issue(Issue{Kind: "violation", What: what, Site: site, Class: class, Detail: r.detail()})
	}
	if d.Msg == nil || d.Msg.Inner != "LogoutResponse" {
		bad("reply is not a LogoutResponse ("+d.Kind+" "+d.Err+")", "not-a-logout-response")
		return
	}
	m := d.Msg
	if d.Msg.Docs != 1 || d.NForms > 1 {
		bad("more than one message in the reply", "concatenated")
	}
	isSuccess := m.Status == provider.StatusCodeSuccess
	if isSuccess && !r.validLogout() {
		bad("Success for a request that is not valid", fmt.Sprintf("success-invalid:issuer=%s,ii=%s,noa=%s,payload=%s", r.Case["issuer"], r.Case["issueinstant"], r.Case["notonorafter"], r.Case["payload"]))
	}
	if !isSuccess && r.validLogout() {
		// this direction is C07's (conformant requests are accepted); C13 states "only for"
	}
	if m.Status == "" {
		bad("LogoutResponse without status", "no-status")
	}
	if r.decodes() && m.InResponseTo != r.ReqID {
		bad("InResponseTo does not echo the request ID", "in-response-to")
	}
	if m.Issuer != "https://idp.example.com/saml/metadata" {
		bad("Issuer is not the IdP entity ID", "issuer")
	}
	switch d.Kind {
	case "post":
		if len(r.SloURLs) == 0 || (d.Target != r.SloURLs[0] && d.Target != htmlURLNormalize(r.SloURLs[0])) {
			bad("posted to something other than the first registered SingleLogoutService location", "target")
		}
		if d.Relay != r.Relay {
			bad("RelayState changed", "relay:"+r.Case["relay"])
		}
		if m.Destination != r.SloURLs[0] {
			bad("Destination differs from the delivery target", "destination")
		}
	case "xmlbody":
		if isSuccess && len(r.SloURLs) > 0 {
			bad("Success LogoutResponse returned in the body although a SingleLogoutService location is registered", "body-despite-slo")
		}
	default:
		bad("unexpected delivery "+d.Kind, "delivery")
	}
}

func monC09slo(c *Ctx, r *SloRun) {
	if r.Reply.Panicked {
		c.issue(Issue{Kind: "violation", What: "panic while serving a logout request: " + strings.SplitN(r.Reply.PanicMsg, "\n", 2)[0], Site: "logoutHandleFunc", Class: panicSite(r.Reply.PanicMsg) + ":issuer=" + r.Case["issuer"] + ",nameid=" + r.Case["nameid"], Detail: r.detail()})
	}
}

func monC07slo(c *Ctx, r *SloRun) {
	cs := r.Case
	conformant := r.validLogout() && cs["id"] != "absent" && cs["nameid"] == "present" && cs["slo"] != "none"
	if !conformant || r.Reply.Panicked {
		return
	}
	c.hist("conformant", "yes")
	if r.Deliv.Msg == nil || r.Deliv.Msg.Status != provider.StatusCodeSuccess {
		c.issue(Issue{Kind: "violation", What: "conformant LogoutRequest not answered with Success", Site: "logoutHandleFunc",
			Class: "transport=" + cs["transport"] + ",encoding=" + cs["encoding"] + ",ii=" + cs["issueinstant"], Detail: r.detail()})
	}
}

type sloMonitor func(c *Ctx, r *SloRun)

var sloModelCompare = func(c *Ctx, r *SloRun) {}

func sloSuite(c *Ctx, mon sloMonitor, rule string) {
	c.rep.Rule = "logout requests over " + fmt.Sprint(len(sloDims)) + " label dimensions (transport/encoding, RelayState, payload well-formedness, ID, Issuer, NameID, SessionIndex, IssueInstant and NotOnOrAfter offsets and lexical forms, 0..2 SingleLogoutService entries, storage lookup): every single and pairwise sweep from 2 base cases plus random cases. Non-trivial = the request decodes; distinct = distinct label vector. " + rule
	seen := map[string]bool{}
	one := func(cs Case) {
		if seen[cs.key()] {
			return
		}
		seen[cs.key()] = true
		r := runSlo(cs)
		c.rep.Evaluations++
		if r.decodes() {
			c.nontrivial(cs.key())
		}
		outcome := r.Deliv.Kind
		if r.Deliv.Msg != nil {
			outcome += ":" + statusShort(r.Deliv.Msg.Status)
		}
		c.hist("outcome", outcome)
		mon(c, r)
		sloModelCompare(c, r)
		if c.rep.Evaluations%211 == 1 {
			c.sample(map[string]interface{}{"case": cs.diffOf(sloDims), "outcome": outcome})
		}
	}
	for _, b := range []Case{sloBase(), sloBase().with("transport", "get-query")} {
		one(b)
		for i, d1 := range sloDims {
			for _, v1 := range d1.vals {
				c1 := b.with(d1.name, v1)
				one(c1)
				for _, d2 := range sloDims[i+1:] {
					for _, v2 := range d2.vals {
						one(c1.with(d2.name, v2))
					}
				}
			}
		}
	}
	n := 1500
	if c.thorough() {
		n = 30000
	}
	for i := 0; i < n; i++ {
		cs := sloBase()
		for e := 0; e < 3+c.rng.intn(3); e++ {
			d := sloDims[c.rng.intn(len(sloDims))]
			cs = cs.with(d.name, d.vals[c.rng.intn(len(d.vals))])
		}
		one(cs)
	}
}

func init() {
	props["survey-slo"] = func(c *Ctx) {
		sloSuite(c, func(c *Ctx, r *SloRun) { monC13(c, r); monC09slo(c, r); monC07slo(c, r) }, "all monitors")
	}
	props["C13"] = func(c *Ctx) {
		buildersDiff(c)
		sloSuite(c, monC13, "Monitor: decoded LogoutResponse (status, InResponseTo, Issuer, Destination), form action and RelayState of the reply.")
	}
}
