package main

// SSO case domain: label-driven dimensions (DESIGN Appendix B), concretised into real HTTP requests.

import (
	"encoding/base64"
	"fmt"
	"net/url"
	"sort"
	"strings"
	"time"

	"github.com/zitadel/saml/pkg/provider"
	samlxml "github.com/zitadel/saml/pkg/provider/xml"
)

type dim struct {
	name string
	vals []string // first value = default (fully valid, unsigned request where signing is not required)
}

var ssoDims = []dim{
	{"transport", []string{"get-query", "post-body", "post-both", "get-noquery", "post-query-replay"}},
	{"encoding", []string{"default", "absent", "deflate", "bogus"}},
	{"relay", []string{"rs-1", "", "a b&c=d/é\"<>", "long"}},
	{"sigalg", []string{"", "rsa-sha256", "rsa-sha1", "dsa-sha1", "dsa-sha256", "unknown"}},
	{"sig", []string{"", "valid", "other-relay", "other-request", "garbage", "notb64", "foreign-key", "der-seq"}},
	{"payload", []string{"authn", "empty", "badb64", "baddeflate", "notxml", "wrongroot", "authn-truncated"}},
	{"id", []string{"set", "empty", "absent"}},
	{"version", []string{"set", "empty", "absent"}},
	{"issuer", []string{"registered", "absent", "empty", "unregistered", "other-registered", "case-variant"}},
	{"destination", []string{"absent", "advertised", "foreign", "trailing-slash", "upper-host"}},
	{"notbefore", []string{"absent", "past", "future", "garbage", "past-nofrac", "past-9frac", "now-frac"}},
	{"notonorafter", []string{"absent", "future", "past", "garbage", "zero-time", "past-offset"}},
	{"emptycond", []string{"no", "yes"}},
	{"protobinding", []string{"absent", "post", "redirect", "artifact", "other"}},
	{"acsurl", []string{"absent", "foreign", "prefix-foreign"}},
	{"embedded", []string{"none", "valid", "valid-nokeyinfo", "valid-foreignkeyinfo", "tampered", "foreign-key", "empty-value", "keyinfo-nox509", "valid-wrappedcert", "wrapped-inner"}},
	{"style", []string{"0", "1", "2", "3"}},
	{"escstyle", []string{"go", "lowerhex", "pct20"}},
	{"reqsigned", []string{"absent", "false", "0", "true", "1"}},
	{"certs", []string{"one-rsa", "none", "one-ec", "two-rsa", "one-rsa-encryption"}},
	{"acs", []string{"post+redirect", "post", "redirect", "artifact", "none", "redirect-default-post", "paos+unknown", "no-spsso", "simplesign-only", "custom-first", "redirect-unparsable", "padded-binding"}},
	{"wantsigned", []string{"", "false", "true", "1"}},
	{"lookup", []string{"ok", "fail"}},
	{"create", []string{"ok", "fail", "fail-with-value"}},
	{"respkey", []string{"ok", "fail", "nil"}},
}

type Case map[string]string

func baseCase() Case {
	c := Case{}
	for _, d := range ssoDims {
		c[d.name] = d.vals[0]
	}
	return c
}

func (c Case) with(kv ...string) Case {
	n := Case{}
	for k, v := range c {
		n[k] = v
	}
	for i := 0; i+1 < len(kv); i += 2 {
		n[kv[i]] = kv[i+1]
	}
	return n
}

func (c Case) key() string {
	var ks []string
	for k := range c {
		ks = append(ks, k)
	}
	sort.Strings(ks)
	var b strings.Builder
	for _, k := range ks {
		b.WriteString(k + "=" + c[k] + ";")
	}
	return b.String()
}

// diff lists the dimensions where c departs from the defaults (compact description for replays/samples)
func (c Case) diff() map[string]string {
	d := map[string]string{}
	for _, dm := range ssoDims {
		if c[dm.name] != dm.vals[0] {
			d[dm.name] = c[dm.name]
		}
	}
	return d
}

const spEntity = "https://sp.example.com/metadata"
const spEntityB = "https://other-sp.example.com/metadata"
const ssoLocation = "https://idp.example.com/saml/SSO"

func acsFor(label string) []AcsEntry {
	post := AcsEntry{"1", "", provider.PostBinding, "https://sp.example.com/acs/post"}
	redir := AcsEntry{"2", "", provider.RedirectBinding, "https://sp.example.com/acs/redirect"}
	switch label {
	case "post+redirect":
		return []AcsEntry{post, redir}
	case "post":
		return []AcsEntry{post}
	case "redirect":
		return []AcsEntry{redir}
	case "artifact":
		return []AcsEntry{{"1", "", artifactBind, "https://sp.example.com/acs/artifact"}}
	case "redirect-default-post":
		return []AcsEntry{{"0", "", provider.PostBinding, "https://sp.example.com/acs/post"}, {"1", "true", provider.RedirectBinding, "https://sp.example.com/acs/redirect"}}
	case "redirect-unparsable":
		return []AcsEntry{{"1", "", provider.RedirectBinding, "127.0.0.1:8443/saml/acs"}}
	case "simplesign-only":
		return []AcsEntry{{"1", "", "urn:oasis:names:tc:SAML:2.0:bindings:HTTP-POST-SimpleSign", "https://sp.example.com/acs/simplesign"}}
	case "custom-first":
		return []AcsEntry{{"0", "true", "urn:example:custom-binding", "https://sp.example.com/acs/custom"}, {"1", "", provider.PostBinding, "https://sp.example.com/acs/post"}}
	case "padded-binding":
		// binding URIs that equal a supported one only after trimming white space: not an answerable binding
		return []AcsEntry{{"1", "", provider.RedirectBinding + " ", "https://sp.example.com/acs/redirect"}, {"2", "", " " + provider.PostBinding, "https://sp.example.com/acs/post"}}
	case "paos+unknown":
		return []AcsEntry{{"1", "", paosBind, "https://sp.example.com/acs/paos"}, {"2", "", "urn:example:unknown", "https://sp.example.com/acs/unknown"}}
	}
	return nil
}

// SsoRun is everything one concretised case produces.
type SsoRun struct {
	Case     Case
	Req      HTTPReq
	SP       SPSpec
	Doc      string // the XML document inside SAMLRequest ("" when the payload is not an AuthnRequest)
	Facts    SsoFacts
	Reply    Reply
	Deliv    Delivered
	Calls    []StorageCall
	Storage  *Storage
	Prov     *provider.Provider
	BuildErr string
	// RelayActedOn is the RelayState the endpoint reads (FormValue: the body wins over the query)
	RelayActedOn string
}

// SsoFacts are true by construction of the request (the harness knows what it signed and what it tampered with).
type SsoFacts struct {
	Binding         string // "redirect" iff the URL query carries SAMLRequest
	FormParses      bool
	RequestNonEmpty bool
	SigAlgWithoutSig bool
	KnownEncoding   bool
	Decodes         bool // base64/inflate/XML well-formed with root AuthnRequest
	IssuerPresent   bool
	IssuerRegistered bool // issuer text names a registered SP (and lookup does not fail)
	IssuerEqualsSP  bool
	IDSet, VersionSet bool
	DestinationOK   bool
	TimeOK          bool // conditions bracket now (or absent), in the supported lexical form
	TimeUnparseable bool
	SigRequired     bool // per SP metadata or IdP configuration, any xs:boolean true form
	ParamSigPresent bool // non-empty Signature parameter
	ParamSigValid   bool // ... and it verifies under the registered key over exactly (request, relay, alg) as sent
	EmbSigPresent   bool // embedded non-empty SignatureValue
	EmbSigValid     bool // ... and it verifies under the registered certificate over the document as sent
	HasRegisteredKey bool
	AcsUsable       bool // a POST or Redirect ACS is registered and is the one the selection rule picks
	Conformant      bool
}

type ssoEnv struct {
	provs map[string]*provider.Provider
	stors map[string]*Storage
}

var signCache = map[string]string{}

func cachedEnveloped(doc string, kp *KeyPair, alg string, withKI bool, kiCert string) (string, error) {
	k := fmt.Sprintf("%p|%s|%v|%s|%s", kp, alg, withKI, kiCert, doc)
	if v, ok := signCache[k]; ok {
		return v, nil
	}
	v, err := signEnveloped(doc, kp, alg, withKI, kiCert)
	if err == nil {
		signCache[k] = v
	}
	return v, err
}

var redirSigCache = map[string]string{}

func cachedRedirSig(kp *KeyPair, req, relay, alg string, style int) string {
	k := fmt.Sprintf("%p|%s|%s|%s|%d", kp, req, relay, alg, style)
	if v, ok := redirSigCache[k]; ok {
		return v
	}
	_, v := signRedirect(kp.Key, req, relay, alg, style)
	redirSigCache[k] = v
	return v
}

func timeLabel(l string, now time.Time) string {
	switch l {
	case "absent":
		return "-"
	case "past":
		return now.Add(-10 * time.Minute).UTC().Format("2006-01-02T15:04:05.000Z")
	case "past-nofrac":
		return now.Add(-10 * time.Minute).UTC().Format("2006-01-02T15:04:05Z")
	case "past-9frac":
		return now.Add(-10 * time.Minute).UTC().Format("2006-01-02T15:04:05.000000000Z")
	case "future":
		return now.Add(10 * time.Minute).UTC().Format("2006-01-02T15:04:05.000Z")
	case "garbage":
		return "yesterday"
	case "zero-time":
		return "0001-01-01T00:00:00Z" // a valid instant of the supported lexical form, long past
	case "past-offset":
		// an instant one hour ago, written in a zone two hours east: its wall-clock digits lie in the future
		return now.Add(-time.Hour).In(time.FixedZone("", 2*3600)).Format("2006-01-02T15:04:05-07:00")
	case "now-frac":
		// stamped with full precision immediately before the request is sent: not in the future, same wall-clock second
		return now.UTC().Format("2006-01-02T15:04:05.000000000Z")
	}
	return "-"
}

func xsTrueS(s string) bool { return s == "true" || s == "1" }

// runSso concretises a case, runs it against a fresh provider/storage and records what happened.
func runSso(c Case) *SsoRun {
	initKeys()
	r := &SsoRun{Case: c}
	st := newStorage()
	r.Storage = st
	now := time.Now()
	// --- registry
	sp := SPSpec{EntityID: spEntity, AppID: "app-1", ReqSigned: c["reqsigned"], Acs: acsFor(c["acs"]), Slo: []string{"https://sp.example.com/slo"}, NoSPSSO: c["acs"] == "no-spsso"}
	if sp.ReqSigned == "absent" {
		sp.ReqSigned = "-"
	}
	switch c["certs"] {
	case "one-rsa":
		sp.Certs = []string{spKeys.B64}
	case "one-ec":
		sp.Certs = []string{ecCertB64}
	case "two-rsa":
		sp.Certs = []string{spKeys.B64, foreignKeys.B64}
	case "one-rsa-encryption":
		sp.Certs = []string{spKeys.B64}
		sp.CertUse = "encryption"
	}
	if c["embedded"] == "valid-wrappedcert" {
		sp.WrapCert = true
	}
	r.SP = sp
	regErr := st.Register(sp)
	if regErr != nil {
		r.BuildErr = "register: " + regErr.Error()
	}
	_ = st.Register(SPSpec{EntityID: spEntityB, AppID: "app-2", ReqSigned: "-", Certs: []string{foreignKeys.B64}, Acs: acsFor("post")})
	if c["lookup"] == "fail" {
		st.Fail("GetEntityByID", 1)
	}
	if c["create"] == "fail" {
		st.Fail("CreateAuthRequest", 1)
	}
	if c["create"] == "fail-with-value" {
		// the storage fails but still hands back the (unsaved) request object together with the error
		st.Fail("CreateAuthRequest", 1)
		st.CreateFailWithValue = true
	}
	switch c["respkey"] {
	case "fail":
		st.Fail("GetResponseSigningKey", 1)
		st.Fail("GetResponseSigningKey", 2)
		st.Fail("GetResponseSigningKey", 3)
	case "nil":
		st.RespKeyNil = true
	}
	cfg := defaultIdpCfg()
	cfg.WantSigned = c["wantsigned"]
	prov, err := newProvider(st, cfg)
	if err != nil {
		r.BuildErr = "provider: " + err.Error()
		return r
	}
	r.Prov = prov
	// --- document
	doc := AuthnSpec{ID: "id-4711", Version: "2.0", IssueInstant: now.UTC().Format("2006-01-02T15:04:05Z"), Destination: "-", ProtocolBinding: "-", AcsURL: "-", AcsIndex: "-",
		Issuer: spEntity, NotBefore: timeLabel(c["notbefore"], now), NotOnOrAfter: timeLabel(c["notonorafter"], now), EmptyConditions: c["emptycond"] == "yes"}
	fmt.Sscanf(c["style"], "%d", &doc.Style)
	switch c["id"] {
	case "empty":
		doc.ID = ""
	case "absent":
		doc.ID = "-"
	}
	switch c["version"] {
	case "empty":
		doc.Version = ""
	case "absent":
		doc.Version = "-"
	}
	switch c["issuer"] {
	case "absent":
		doc.Issuer = "-"
	case "empty":
		doc.Issuer = ""
	case "unregistered":
		doc.Issuer = "https://unknown.example.com/metadata"
	case "other-registered":
		doc.Issuer = spEntityB
	case "case-variant":
		// a look-alike of the registered entity ID (host in another case); the storage resolves entity IDs
		// case-insensitively, so the lookup succeeds and only the equality check of the library stands in the way
		doc.Issuer = strings.Replace(spEntity, "sp.example.com", "SP.Example.COM", 1)
		st.FoldEntityCase = true
	}
	switch c["destination"] {
	case "advertised":
		doc.Destination = ssoLocation
	case "foreign":
		doc.Destination = "https://evil.example.com/saml/SSO"
	case "trailing-slash":
		doc.Destination = ssoLocation + "/"
	case "upper-host":
		doc.Destination = "https://IDP.example.com/saml/SSO"
	}
	switch c["protobinding"] {
	case "post":
		doc.ProtocolBinding = provider.PostBinding
	case "redirect":
		doc.ProtocolBinding = provider.RedirectBinding
	case "artifact":
		doc.ProtocolBinding = artifactBind
	case "other":
		doc.ProtocolBinding = "urn:example:other"
	}
	if c["acsurl"] == "foreign" {
		doc.AcsURL = "https://evil.example.com/acs"
	}
	if c["acsurl"] == "prefix-foreign" {
		// a foreign URL of which a registered consumer URL is a string prefix
		doc.AcsURL = "https://sp.example.com/acs/post.attacker.test/acs"
	}
	if c["embedded"] == "keyinfo-nox509" {
		doc.Extra = fmt.Sprintf(`<ds:Signature xmlns:ds="%s"><ds:SignedInfo/><ds:SignatureValue>AAAA</ds:SignatureValue><ds:KeyInfo><ds:KeyName>k</ds:KeyName></ds:KeyInfo></ds:Signature>`, nsDsig)
	}
	if c["embedded"] == "empty-value" {
		doc.Extra = fmt.Sprintf(`<ds:Signature xmlns:ds="%s"><ds:SignedInfo/><ds:SignatureValue></ds:SignatureValue></ds:Signature>`, nsDsig)
	}
	xmlDoc := doc.XML()
	embAlg := algRSASHA256
	f := &r.Facts
	switch c["embedded"] {
	case "valid", "valid-wrappedcert":
		xmlDoc, err = cachedEnveloped(xmlDoc, spKeys, embAlg, true, "")
		f.EmbSigPresent, f.EmbSigValid = true, true
	case "valid-nokeyinfo":
		xmlDoc, err = cachedEnveloped(xmlDoc, spKeys, embAlg, false, "")
		f.EmbSigPresent, f.EmbSigValid = true, true
	case "valid-foreignkeyinfo":
		xmlDoc, err = cachedEnveloped(xmlDoc, spKeys, embAlg, true, foreignKeys.B64)
		f.EmbSigPresent, f.EmbSigValid = true, false // KeyInfo names a certificate that is not registered
	case "tampered":
		xmlDoc, err = cachedEnveloped(xmlDoc, spKeys, embAlg, true, "")
		xmlDoc = strings.Replace(xmlDoc, "id-4711", "id-4712", 1)
		f.EmbSigPresent, f.EmbSigValid = true, false
	case "wrapped-inner":
		// signature wrapping: a forged outer request (other ID) carries the genuinely signed request inside an Extensions
		// element together with a copy of its ds:Signature as its own child
		var signedInner string
		signedInner, err = cachedEnveloped(xmlDoc, spKeys, embAlg, true, "")
		if err == nil {
			inner := strings.TrimPrefix(signedInner, `<?xml version="1.0" encoding="UTF-8"?>`)
			sigStart := strings.Index(inner, "<ds:Signature")
			sigEnd := strings.Index(inner, "</ds:Signature>")
			outer := doc
			outer.ID = "id-forged-outer"
			if sigStart >= 0 && sigEnd > sigStart {
				outer.Extra = inner[sigStart:sigEnd+len("</ds:Signature>")] + `<samlp:Extensions xmlns:samlp="` + nsProtocol + `">` + inner + `</samlp:Extensions>`
			}
			xmlDoc = outer.XML()
		}
		f.EmbSigPresent, f.EmbSigValid = true, false
	case "foreign-key":
		xmlDoc, err = cachedEnveloped(xmlDoc, foreignKeys, embAlg, true, "")
		f.EmbSigPresent, f.EmbSigValid = true, false
	case "keyinfo-nox509":
		f.EmbSigPresent, f.EmbSigValid = true, false
	}
	if err != nil {
		r.BuildErr = "sign: " + err.Error()
		return r
	}
	// --- transport
	binding := "post"
	if c["transport"] == "get-query" || c["transport"] == "post-both" || c["transport"] == "post-query-replay" {
		binding = "redirect"
	}
	f.Binding = binding
	encLabel := c["encoding"]
	encParam := ""
	deflated := false
	switch encLabel {
	case "default":
		if binding == "redirect" {
			deflated = true // parameter absent, DEFLATE is the default of the binding
		}
	case "absent":
		deflated = binding == "redirect"
	case "deflate":
		encParam = samlxml.EncodingDeflate
		deflated = true
	case "bogus":
		encParam = "urn:example:bogus-encoding"
	}
	f.KnownEncoding = encLabel != "bogus"
	payload := ""
	f.Decodes = false
	switch c["payload"] {
	case "authn":
		r.Doc = xmlDoc
		if deflated {
			payload = deflateB64(xmlDoc)
		} else {
			payload = plainB64(xmlDoc)
		}
		f.Decodes = f.KnownEncoding
	case "empty":
		payload = ""
	case "badb64":
		payload = "@@@not-base64@@@"
	case "baddeflate":
		payload = base64.StdEncoding.EncodeToString([]byte{0xff, 0xfe, 0xfd, 0x00, 0x01})
		if !deflated {
			payload = plainB64("<<<")
		}
	case "notxml":
		if deflated {
			payload = deflateB64("this is not xml <")
		} else {
			payload = plainB64("this is not xml <")
		}
	case "authn-truncated":
		// a DEFLATE stream that ends early: the whole message is in the part that still inflates (the rest is a
		// trailing comment), but the stream is not a complete DEFLATE stream
		r.Doc = xmlDoc
		full := deflate([]byte(xmlDoc + "<!--" + strings.Repeat("padding ", 200) + "-->"))
		if deflated && len(full) > 40 {
			payload = base64.StdEncoding.EncodeToString(full[:len(full)-12])
		} else {
			payload = plainB64(xmlDoc[:len(xmlDoc)/2])
		}
	case "wrongroot":
		w := fmt.Sprintf(`<samlp:LogoutRequest xmlns:samlp="%s" ID="x" Version="2.0"/>`, nsProtocol)
		if deflated {
			payload = deflateB64(w)
		} else {
			payload = plainB64(w)
		}
	}
	f.RequestNonEmpty = payload != ""
	// signature parameters
	relay := c["relay"]
	if relay == "long" {
		relay = "rs-long-" + strings.Repeat("0123456789abcdef", 16)
	}
	sigAlg := ""
	switch c["sigalg"] {
	case "rsa-sha256":
		sigAlg = algRSASHA256
	case "rsa-sha1":
		sigAlg = algRSASHA1
	case "dsa-sha1":
		sigAlg = algDSASHA1
	case "dsa-sha256":
		sigAlg = algDSASHA256
	case "unknown":
		sigAlg = "urn:example:alg"
	}
	signAlg := sigAlg
	if signAlg != algRSASHA1 && signAlg != algRSASHA256 {
		signAlg = algRSASHA256
	}
	esc := 0
	switch c["escstyle"] {
	case "lowerhex":
		esc = 1
	case "pct20":
		esc = 2
	}
	sig := ""
	switch c["sig"] {
	case "valid":
		sig = cachedRedirSig(spKeys, payload, relay, signAlg, esc)
	case "other-relay":
		sig = cachedRedirSig(spKeys, payload, relay+"x", signAlg, 0)
	case "other-request":
		sig = cachedRedirSig(spKeys, payload+"A", relay, signAlg, 0)
	case "garbage":
		sig = base64.StdEncoding.EncodeToString([]byte("this is not a signature at all, just bytes"))
	case "notb64":
		sig = "%%%"
	case "der-seq":
		sig = "MAYCAQECAQE=" // DER SEQUENCE{INTEGER 1, INTEGER 1}: what a DSA verifier parses before it touches the key
	case "foreign-key":
		sig = cachedRedirSig(foreignKeys, payload, relay, signAlg, esc)
	}
	f.ParamSigPresent = sig != ""
	f.SigAlgWithoutSig = sigAlg != "" && sig == ""
	f.HasRegisteredKey = (c["certs"] == "one-rsa") && !sp.NoSPSSO
	f.ParamSigValid = c["sig"] == "valid" && (sigAlg == algRSASHA1 || sigAlg == algRSASHA256) && f.HasRegisteredKey
	if !(c["certs"] == "one-rsa" || c["certs"] == "two-rsa") || sp.NoSPSSO {
		f.EmbSigValid = false
	}
	if c["certs"] == "two-rsa" {
		// NewServiceProvider refuses more than one signing certificate
	}
	relayActedOn := relay
	form := url.Values{}
	if encParam != "" {
		form.Set("SAMLEncoding", encParam)
	}
	if relay != "" {
		form.Set("RelayState", relay)
	}
	if sigAlg != "" {
		form.Set("SigAlg", sigAlg)
	}
	if sig != "" {
		form.Set("Signature", sig)
	}
	req := HTTPReq{Path: "/SSO"}
	switch c["transport"] {
	case "get-query":
		form.Set("SAMLRequest", payload)
		req.Method = "GET"
		// parameters in the order and with the percent-encoding style the simulated SP signed
		var parts []string
		for _, k := range []string{"SAMLRequest", "RelayState", "SigAlg", "Signature", "SAMLEncoding"} {
			if vs, ok := form[k]; ok {
				parts = append(parts, k+"="+queryEsc(vs[0], esc))
			}
		}
		req.Query = strings.Join(parts, "&")
	case "post-body":
		form.Set("SAMLRequest", payload)
		req.Method, req.Body, req.CType = "POST", form.Encode(), "application/x-www-form-urlencoded"
	case "post-both":
		// the query names a decoy request; the body carries the real parameters (body wins in FormValue)
		form.Set("SAMLRequest", payload)
		req.Method, req.Body, req.CType = "POST", form.Encode(), "application/x-www-form-urlencoded"
		req.Query = "SAMLRequest=" + url.QueryEscape(deflateB64(`<decoy/>`))
	case "post-query-replay":
		// the URL query is a complete (possibly genuinely signed) redirect-binding request; the form body carries a
		// different, unsigned message and RelayState.  FormValue lets the body win: the message acted on is the body's,
		// so a signature over the query's values covers nothing of it.
		form.Set("SAMLRequest", payload)
		var parts []string
		for _, k := range []string{"SAMLRequest", "RelayState", "SigAlg", "Signature", "SAMLEncoding"} {
			if vs, ok := form[k]; ok {
				parts = append(parts, k+"="+queryEsc(vs[0], esc))
			}
		}
		req.Query = strings.Join(parts, "&")
		forged := strings.Replace(xmlDoc, "id-4711", "id-forged", 1)
		body := url.Values{"SAMLRequest": {deflateB64(forged)}, "RelayState": {relay + "-forged"}}
		req.Method, req.Body, req.CType = "POST", body.Encode(), "application/x-www-form-urlencoded"
		f.ParamSigValid = false
		relayActedOn = relay + "-forged"
		// the message acted on is the body's: always a well-formed (forged) AuthnRequest, whatever the query's payload is
		f.RequestNonEmpty = true
		f.Decodes = f.KnownEncoding
	case "get-noquery":
		req.Method = "GET"
		f.RequestNonEmpty = false
	}
	r.RelayActedOn = relayActedOn
	r.Req = req
	f.FormParses = true
	// --- document facts
	isAuthn := (c["payload"] == "authn" && c["transport"] != "get-noquery") || c["transport"] == "post-query-replay"
	f.Decodes = f.Decodes && isAuthn
	f.IssuerPresent = doc.Issuer != "-"
	f.IssuerRegistered = ((doc.Issuer == spEntity && regErr == nil) || doc.Issuer == spEntityB) && c["lookup"] == "ok" // a case variant is not the registered entity ID
	f.IssuerEqualsSP = f.IssuerRegistered
	f.IDSet = doc.ID != "" && doc.ID != "-"
	f.VersionSet = doc.Version != "" && doc.Version != "-"
	f.DestinationOK = doc.Destination == "-" || doc.Destination == ssoLocation
	nbOK := c["notbefore"] == "absent" || strings.HasPrefix(c["notbefore"], "past") || c["notbefore"] == "now-frac"
	noaOK := c["notonorafter"] == "absent" || c["notonorafter"] == "future"
	f.TimeOK = nbOK && noaOK
	f.TimeUnparseable = c["notbefore"] == "garbage" || c["notonorafter"] == "garbage" || c["notonorafter"] == "past-offset" // "zero-time" parses, and is in the past; a numeric zone offset is not of the supported lexical form
	spFlag := sp.ReqSigned
	if doc.Issuer == spEntityB {
		// the issuer in effect is SP B: no signing requirement of its own, registered key = the "foreign" key pair
		spFlag = "-"
		f.HasRegisteredKey = true
		f.ParamSigValid = c["sig"] == "foreign-key" && (sigAlg == algRSASHA1 || sigAlg == algRSASHA256)
		f.EmbSigValid = c["embedded"] == "foreign-key"
	}
	f.SigRequired = xsTrueS(spFlag) || xsTrueS(c["wantsigned"])
	// --- run
	st.ResetLog()
	r.Reply = serve(prov.HttpHandler(), req)
	r.Deliv = classify(r.Reply)
	r.Calls = append([]StorageCall{}, st.Calls...)
	return r
}

func (r *SsoRun) creates() (all []StorageCall, ok []StorageCall) {
	for _, c := range r.Calls {
		if c.Op == "CreateAuthRequest" {
			all = append(all, c)
			if !c.Err {
				ok = append(ok, c)
			}
		}
	}
	return
}

func (r *SsoRun) accepted() bool {
	_, ok := r.creates()
	return len(ok) > 0
}

func (r *SsoRun) detail() map[string]interface{} {
	d := map[string]interface{}{"case": r.Case.diff(), "request": r.Req, "reply_kind": r.Deliv.Kind, "reply_code": r.Reply.Code,
		"location": r.Reply.Location, "storage_calls": r.Calls, "facts": r.Facts}
	if r.Deliv.Msg != nil {
		d["reply_status"] = r.Deliv.Msg.Status
		d["reply_status_message"] = r.Deliv.Msg.StatusMessage
	}
	if r.Reply.Panicked {
		d["panic"] = strings.SplitN(r.Reply.PanicMsg, "\n", 2)[0]
	}
	if r.BuildErr != "" {
		d["build_error"] = r.BuildErr
	}
	if len(r.Reply.Body) < 600 {
		d["body"] = r.Reply.Body
	}
	return d
}

// ssoEnumerate yields the stepwise-exhaustive enumeration: for each base configuration every single
// dimension sweep and every pair sweep of dimensions.
func ssoBases() []Case {
	b := baseCase()
	return []Case{
		b, // unsigned redirect
		b.with("transport", "post-body"),
		b.with("sigalg", "rsa-sha256", "sig", "valid"),                                                            // signed redirect
		b.with("transport", "post-body", "embedded", "valid"),                                                     // signed POST
		b.with("sigalg", "rsa-sha256", "sig", "valid", "reqsigned", "true"),                                       // required + signed redirect
		b.with("transport", "post-body", "embedded", "valid", "wantsigned", "true"),                               // required + signed POST
	}
}

func ssoEnumerate(pairs bool, each func(Case)) {
	seen := map[string]bool{}
	emit := func(c Case) {
		k := c.key()
		if !seen[k] {
			seen[k] = true
			each(c)
		}
	}
	for _, b := range ssoBases() {
		emit(b)
		for i, d1 := range ssoDims {
			for _, v1 := range d1.vals {
				c1 := b.with(d1.name, v1)
				emit(c1)
				if !pairs {
					continue
				}
				for _, d2 := range ssoDims[i+1:] {
					for _, v2 := range d2.vals {
						emit(c1.with(d2.name, v2))
					}
				}
			}
		}
	}
}

func ssoRandom(rng *Rng, n int, each func(Case)) {
	bases := ssoBases()
	for i := 0; i < n; i++ {
		c := bases[rng.intn(len(bases))]
		edits := 2 + rng.intn(3)
		for e := 0; e < edits; e++ {
			d := ssoDims[rng.intn(len(ssoDims))]
			c = c.with(d.name, d.vals[rng.intn(len(d.vals))])
		}
		each(c)
	}
}
