#!/usr/bin/env python3
"""merge_run_results.py <vp run log>... — a seed sweep started with `vp run --with-repo` prints, at its end,
`== <seed id>` followed by that seed's result.json; this copies each into /verif/seeded/<id>/result.json."""
import json
import os
import re
import sys

ROOT = os.path.dirname(os.path.dirname(os.path.abspath(__file__)))
for log in sys.argv[1:]:
    txt = open(log, errors="replace").read().replace("}== ", "}\n== ")
    parts = re.split(r"^== (C\d\d-[a-z])\s*$", txt, flags=re.M)
    for i in range(1, len(parts) - 1, 2):
        sid, body = parts[i], parts[i + 1].strip()
        try:
            dec = json.JSONDecoder()
            obj, _ = dec.raw_decode(body)
        except Exception as e:
            print(sid, "no result:", str(e)[:60])
            continue
        d = os.path.join(ROOT, "seeded", sid)
        if not os.path.isdir(d):
            print(sid, "unknown seed")
            continue
        json.dump(obj, open(os.path.join(d, "result.json"), "w"), indent=1)
        ck = obj.get("checks", {})
        print(sid, {k: (bool(v.get("violations")), any(not r.get("no_input") for r in v.get("replays", []))) for k, v in ck.items()})
