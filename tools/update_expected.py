#!/usr/bin/env python3
"""Snapshot the fingerprints / chain skeletons the hand-written models were written against.

Run by hand after the hand-written Lean models (Model/*.lean) have been brought in line with /repo
(e.g. after a fix: commit).  Writes lean/SamlModel/Model/Expected.lean from harness/gen/meta.json.
The check never runs this: a source change that alters a fingerprint breaks the obligation
`*_source_current` of every property that depends on the function.
"""
import json, os, subprocess
ROOT = os.path.dirname(os.path.dirname(os.path.abspath(__file__)))
env = dict(os.environ, GOFLAGS="-mod=mod", GOPROXY="off")
env.pop("GOSUMDB", None); env.pop("GOTOOLCHAIN", None)
subprocess.check_call(["go", "build", "-o", "bin/go2lean", "./cmd/go2lean"], cwd=os.path.join(ROOT, "tools"), env=env)
subprocess.check_call([os.path.join(ROOT, "tools/bin/go2lean"), "-repo", os.environ.get("VERIF_REPO", "/repo"),
                       "-out", os.path.join(ROOT, "lean/SamlModel/Generated"), "-meta", os.path.join(ROOT, "harness/gen/meta.json"),
                       "-shim", os.path.join(ROOT, "harness/gen/zz_verif_export.go")], env=env)
facts = json.load(open(os.path.join(ROOT, "harness/gen/meta.json")))["facts"]

def s(x):
    return json.dumps(x, ensure_ascii=False)

out = ["-- Snapshot written by tools/update_expected.py; compared with Gen.Facts by the *_source_current theorems.",
       "import SamlModel.Generated.Facts", "namespace Expected", "open Gen.Facts", ""]
out.append("def funcHashes : List (String × String) := [")
out.append(",\n".join("  (%s, %s)" % (s(k), s(v)) for k, v in facts["funcHashes"]))
out.append("]\n")
for name in ["ssoChain", "sloChain", "aqChain"]:
    c = facts[name]
    out.append("def %s : Chain := {\n  steps := [" % name)
    out.append(",\n".join("    { kind := %s, calls := [%s], fail := %s, hash := %s }" % (
        s(st["kind"]), ", ".join(s(x) for x in st["calls"]), s(st["fail"]), s(st["hash"])) for st in c["steps"]))
    out.append("  ],\n  pre := %s,\n  post := %s }\n" % (s(c["pre"]), s(c["post"])))
out.append("def consts : List (String × String) := [")
out.append(",\n".join("  (%s, %s)" % (s(k), s(v)) for k, v in facts["consts"] if k not in ("postTemplate", "logoutTemplate")))
out.append("]\n")
out.append("def templatePkg : String := %s\n" % s(facts["templatePkg"]))
out.append("def deps : List (String × String) := [%s]\n" % ", ".join("(%s, %s)" % (s(k), s(v)) for k, v in facts["deps"]))
out.append("def handlerReachableWrites : List (String × String × Bool) := [%s]\n" % ", ".join(
    "(%s, %s, true)" % (s(w["func"]), s(w["target"])) for w in (facts["writes"] or []) if w["handler_reachable"]))
out.append("def sharedFields : List (String × String × String) := [")
out.append(",\n".join("  (%s, %s, %s)" % (s(f[0]), s(f[1]), s(f[2])) for f in facts["shared"]["fields"]))
out.append("]\n")
out.append("end Expected")
open(os.path.join(ROOT, "lean/SamlModel/Model/Expected.lean"), "w").write("\n".join(out) + "\n")
print("written")
