#!/usr/bin/env python3
"""seed_sweep.py — run the seeded-change trials.

  tools/seed_sweep.py [--only C01-a,C02-b] [--all-props] [--no-confirm] [--out DIR]

For every /verif/seeded/<id>/ (patch.diff, demo_test.go, meta.json): confirm the change in a scratch worktree
(suite green with it, demonstration fails with it and passes without), then apply it to the repository named by
VERIF_REPO (default /repo), run the check of the property it targets (or every check), and undo it.
Results: <id>/result.json and, collected, DIR/summary.json (default seeded/summary.json).
Meant to be started with `vp run --with-repo -- sh -c 'VERIF_REPO=$VP_RUN_REPO ./setup.sh && VERIF_REPO=$VP_RUN_REPO tools/seed_sweep.py --out /tmp/seedres'`
so that /repo itself is never touched while other work goes on.
"""
import json
import os
import subprocess
import sys
import time

ROOT = os.path.dirname(os.path.dirname(os.path.abspath(__file__)))


def main():
    args = sys.argv[1:]
    only = None
    extra = []
    out_dir = os.path.join(ROOT, "seeded")
    i = 0
    confirm = True
    while i < len(args):
        if args[i] == "--only":
            only = set(args[i + 1].split(","))
            i += 2
        elif args[i] == "--all-props":
            extra = ["--all"]
            i += 1
        elif args[i] == "--no-confirm":
            confirm = False
            i += 1
        elif args[i] == "--out":
            out_dir = args[i + 1]
            i += 2
        else:
            i += 1
    os.makedirs(out_dir, exist_ok=True)
    seeds = sorted(d for d in os.listdir(os.path.join(ROOT, "seeded")) if os.path.exists(os.path.join(ROOT, "seeded", d, "patch.diff")))
    summary = {}
    for s in seeds:
        if only and s not in only:
            continue
        d = os.path.join(ROOT, "seeded", s)
        t0 = time.time()
        try:
            os.remove(os.path.join(d, "result.json"))
        except OSError:
            pass
        cmd = [sys.executable, os.path.join(ROOT, "tools", "run_seeded.py"), d] + (["--confirm"] if confirm else []) + extra
        p = subprocess.run(cmd, cwd=ROOT, stdout=subprocess.PIPE, stderr=subprocess.STDOUT, text=True)
        res = {}
        try:
            res = json.load(open(os.path.join(d, "result.json")))
        except Exception:
            pass
        caught = {k: bool(v.get("violations")) for k, v in res.get("checks", {}).items()}
        summary[s] = {"confirmed": res.get("confirm", {}).get("confirmed"), "confirm": {k: v for k, v in res.get("confirm", {}).items() if not k.endswith("tail")},
                      "caught_by": sorted(k for k, v in caught.items() if v), "missed_by": sorted(k for k, v in caught.items() if not v),
                      "with_failing_input": sorted(k for k, v in res.get("checks", {}).items() if any(not r.get("no_input") for r in v.get("replays", []))),
                      "checks": res.get("checks", {}), "wall_s": round(time.time() - t0, 1), "tool_output_tail": p.stdout[-1500:]}
        print("%s confirmed=%s caught_by=%s with_input=%s missed_by=%s (%.0fs)" % (s, summary[s]["confirmed"], summary[s]["caught_by"], summary[s]["with_failing_input"], summary[s]["missed_by"], time.time() - t0), flush=True)
        json.dump(summary, open(os.path.join(out_dir, "summary.json"), "w"), indent=1)
        if res:
            json.dump(res, open(os.path.join(out_dir, s + ".result.json"), "w"), indent=1)


if __name__ == "__main__":
    main()
