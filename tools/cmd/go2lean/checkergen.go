package main

// checkergen: translation of pkg/provider/checker/checker.go - the generic chain abstraction - into Lean.
//
// The methods of Checker take closures of the client (`func() string`, `func() bool`, `func() error`, `func()`) and
// build closures over them.  They are translated polymorphically in the client state σ: a closure parameter `func() T`
// is a state transformer `σ → T × σ` (`Checker.M σ T` of Model.Checker, which also supplies the `Checker σ` structure: the
// list of steps), a call `value()` threads the state, and the body of the step closure becomes a function `σ → Bool × σ`.
// Only the statement and expression forms checker.go uses are supported; anything else fails the translation (and with
// it every check that lists Generated/Checker.lean).

import (
	"fmt"
	"go/ast"
	"go/token"
	"go/types"
	"strings"
)

type ckCtx struct {
	info   *types.Info
	fnpar  map[types.Object]bool // closure-typed parameters
	locals map[types.Object]string
	n      int
}

func (c *ckCtx) fresh(p string) string {
	c.n++
	return fmt.Sprintf("%s%d_", p, c.n)
}

func ckFail(f string, a ...interface{}) { panic("checkergen: " + fmt.Sprintf(f, a...)) }

// mode of a statement list: where `return e` and falling off the end go
type ckMode struct {
	ret  func(v string) string // value returned
	fall string                // falling off the end ("" = not allowed)
}

func (w *world) emitChecker() (out string, failed string) {
	defer func() {
		if r := recover(); r != nil {
			failed = fmt.Sprint(r)
			out = header + "import SamlModel.Model.Checker\n-- UNTRANSLATED checker.go: " + strings.ReplaceAll(failed, "\n", " ") + "\nnamespace Gen.Chk\ndef translated : Bool := false\nend Gen.Chk\n"
		}
	}()
	p := w.pkgs["pkg/provider/checker"]
	if p == nil {
		ckFail("package pkg/provider/checker not found")
	}
	var sb strings.Builder
	sb.WriteString(header)
	sb.WriteString("import SamlModel.GoSem\nimport SamlModel.Lib.Strings\nimport SamlModel.Model.Checker\n\nopen Go\nset_option linter.unusedVariables false\n\n")
	sb.WriteString("/-! checker.go, translated: polymorphic in the client state `σ`; `Checker.Checker σ` (the list of steps) and\n    `Checker.M` are those of Model.Checker, every function below is regenerated from the source. -/\nnamespace Gen.Chk\n\n")
	seen := map[string]bool{}
	var first, others strings.Builder
	for _, file := range p.Syntax {
		for _, d := range file.Decls {
			fd, ok := d.(*ast.FuncDecl)
			if !ok || fd.Body == nil || fd.Recv == nil {
				continue
			}
			name := fd.Name.Name
			c := &ckCtx{info: p.TypesInfo, fnpar: map[types.Object]bool{}, locals: map[types.Object]string{}}
			switch {
			case name == "StepCount":
				continue
			case name == "addStep":
				first.WriteString(c.addStep(fd))
			case name == "CheckFailed":
				others.WriteString(c.checkFailed(fd))
			case strings.HasPrefix(name, "With"):
				others.WriteString(c.with(fd))
			default:
				ckFail("unexpected method %s", name)
			}
			seen[name] = true
		}
	}
	for _, n := range []string{"addStep", "CheckFailed", "WithValueNotEmptyCheck", "WithValuesNotEmptyCheck", "WithValueLengthCheck", "WithValueEqualsCheck",
		"WithConditionalValueNotEmpty", "WithConditionalLogicStep", "WithLogicStep", "WithValueStep"} {
		if !seen[n] {
			ckFail("method %s not found", n)
		}
	}
	sb.WriteString(first.String())
	sb.WriteString(others.String())
	sb.WriteString("def translated : Bool := true\n\nend Gen.Chk\n")
	return sb.String(), ""
}

// func (c *Checker) addStep(f step) { c.steps = append(c.steps, f) }
func (c *ckCtx) addStep(fd *ast.FuncDecl) string {
	if len(fd.Body.List) != 1 {
		ckFail("addStep: unexpected body")
	}
	as, ok := fd.Body.List[0].(*ast.AssignStmt)
	if !ok || types.ExprString(as.Lhs[0]) != "c.steps" {
		ckFail("addStep: unexpected body")
	}
	call, ok := as.Rhs[0].(*ast.CallExpr)
	if !ok || types.ExprString(call.Fun) != "append" || len(call.Args) != 2 || types.ExprString(call.Args[0]) != "c.steps" {
		ckFail("addStep: unexpected body")
	}
	arg := types.ExprString(call.Args[1])
	par := fd.Type.Params.List[0].Names[0].Name
	if arg != par {
		ckFail("addStep: appends %s", arg)
	}
	return fmt.Sprintf("/-- `%s` -/\ndef addStep {σ : Type} (c : Checker.Checker σ) (%s : Checker.M σ Bool) : Checker.Checker σ :=\n  { steps := c.steps ++ [%s] }\n\n", types.ExprString(as.Lhs[0])+" = "+types.ExprString(as.Rhs[0]), par, par)
}

// func (c *Checker) CheckFailed() bool { for _, step := range c.steps { if step() { return true } }; return false }
func (c *ckCtx) checkFailed(fd *ast.FuncDecl) string {
	// `step` ranges over closures: mark it callable
	body := c.stmts(fd.Body.List, "  ", ckMode{ret: func(v string) string { return "(" + v + ", s)" }}, func(id *ast.Ident) bool { return true })
	return fmt.Sprintf("/-- `CheckFailed` -/\ndef checkFailed {σ : Type} (c : Checker.Checker σ) : Checker.M σ Bool := fun s =>\n%s\n\n", body)
}

func (c *ckCtx) leanParamType(t types.Type) (string, bool) {
	switch u := t.Underlying().(type) {
	case *types.Signature:
		if u.Params().Len() != 0 || u.Results().Len() > 1 {
			ckFail("unsupported closure parameter type %s", t)
		}
		if u.Results().Len() == 0 {
			return "Checker.M σ Unit", true
		}
		return "Checker.M σ " + c.leanBasic(u.Results().At(0).Type()), true
	case *types.Basic:
		return c.leanBasic(t), false
	}
	ckFail("unsupported parameter type %s", t)
	return "", false
}

func (c *ckCtx) leanBasic(t types.Type) string {
	if t.String() == "error" {
		return "Err"
	}
	switch u := t.Underlying().(type) {
	case *types.Basic:
		switch {
		case u.Info()&types.IsString != 0:
			return "String"
		case u.Info()&types.IsBoolean != 0:
			return "Bool"
		case u.Info()&types.IsInteger != 0:
			return "Int"
		}
	case *types.Slice:
		return "(List " + c.leanBasic(u.Elem()) + ")"
	}
	ckFail("unsupported type %s", t)
	return ""
}

// func (c *Checker) WithX(params…) *Checker { c.addStep(func() bool { … }); return c }
func (c *ckCtx) with(fd *ast.FuncDecl) string {
	if len(fd.Body.List) != 2 {
		ckFail("%s: unexpected body", fd.Name.Name)
	}
	es, ok := fd.Body.List[0].(*ast.ExprStmt)
	if !ok {
		ckFail("%s: unexpected body", fd.Name.Name)
	}
	call, ok := es.X.(*ast.CallExpr)
	if !ok || types.ExprString(call.Fun) != "c.addStep" || len(call.Args) != 1 {
		ckFail("%s: does not call c.addStep", fd.Name.Name)
	}
	fl, ok := call.Args[0].(*ast.FuncLit)
	if !ok {
		ckFail("%s: addStep argument is not a closure literal", fd.Name.Name)
	}
	if r, ok := fd.Body.List[1].(*ast.ReturnStmt); !ok || len(r.Results) != 1 || types.ExprString(r.Results[0]) != "c" {
		ckFail("%s: does not return c", fd.Name.Name)
	}
	var params []string
	for _, f := range fd.Type.Params.List {
		for _, n := range f.Names {
			obj := c.info.Defs[n]
			ty, isFn := c.leanParamType(obj.Type())
			if isFn {
				c.fnpar[obj] = true
			}
			c.locals[obj] = sanitize(n.Name)
			params = append(params, fmt.Sprintf("(%s : %s)", sanitize(n.Name), ty))
		}
	}
	body := c.stmts(fl.Body.List, "    ", ckMode{ret: func(v string) string { return "(" + v + ", s)" }}, nil)
	name := strings.ToLower(fd.Name.Name[:1]) + fd.Name.Name[1:]
	return fmt.Sprintf("/-- `%s` -/\ndef %s {σ : Type} (c : Checker.Checker σ) %s : Checker.Checker σ :=\n  addStep c fun s =>\n%s\n\n", fd.Name.Name, name, strings.Join(params, " "), body)
}

// isLogging: logging.X(...) - its arguments are still evaluated (they may call client closures)
func isLogging(e ast.Expr) (*ast.CallExpr, bool) {
	call, ok := e.(*ast.CallExpr)
	if !ok {
		return nil, false
	}
	sel, ok := call.Fun.(*ast.SelectorExpr)
	if !ok {
		return nil, false
	}
	id, ok := sel.X.(*ast.Ident)
	return call, ok && id.Name == "logging"
}

// stmts translates a statement list into a Lean term (of the type the mode's `ret` produces) over the state variable `s`.
func (c *ckCtx) stmts(list []ast.Stmt, ind string, m ckMode, callable func(*ast.Ident) bool) string {
	if len(list) == 0 {
		if m.fall == "" {
			ckFail("statement list falls off its end")
		}
		return ind + m.fall
	}
	st, rest := list[0], list[1:]
	switch s := st.(type) {
	case *ast.ReturnStmt:
		if len(s.Results) != 1 {
			ckFail("return with %d results", len(s.Results))
		}
		return c.ev(s.Results[0], ind, callable, func(v string) string { return ind + m.ret(v) })
	case *ast.ExprStmt:
		if call, ok := isLogging(s.X); ok {
			// evaluate the arguments in order for their effects
			var chain func(i int) string
			chain = func(i int) string {
				if i == len(call.Args) {
					return c.stmts(rest, ind, m, callable)
				}
				if !c.hasCall(call.Args[i], callable) {
					return chain(i + 1)
				}
				return c.ev(call.Args[i], ind, callable, func(string) string { return chain(i + 1) })
			}
			return chain(0)
		}
		return c.ev(s.X, ind, callable, func(string) string { return c.stmts(rest, ind, m, callable) })
	case *ast.IfStmt:
		if s.Else != nil {
			ckFail("if with else")
		}
		cont := func() string {
			return c.ev(s.Cond, ind, callable, func(v string) string {
				thenB := c.stmts(append(append([]ast.Stmt{}, s.Body.List...), rest...), ind+"  ", m, callable)
				elseB := c.stmts(rest, ind+"  ", m, callable)
				return fmt.Sprintf("%sif %s then\n%s\n%selse\n%s", ind, v, thenB, ind, elseB)
			})
		}
		if s.Init != nil {
			as, ok := s.Init.(*ast.AssignStmt)
			if !ok || as.Tok != token.DEFINE || len(as.Lhs) != 1 || len(as.Rhs) != 1 {
				ckFail("unsupported if-init")
			}
			id := as.Lhs[0].(*ast.Ident)
			return c.ev(as.Rhs[0], ind, callable, func(v string) string {
				c.locals[c.info.Defs[id]] = v
				return cont()
			})
		}
		return cont()
	case *ast.RangeStmt:
		if s.Key != nil {
			if id, ok := s.Key.(*ast.Ident); !ok || id.Name != "_" {
				ckFail("range with index")
			}
		}
		vid, ok := s.Value.(*ast.Ident)
		if !ok {
			ckFail("range without value variable")
		}
		return c.ev(s.X, ind, callable, func(xs string) string {
			vn := c.fresh(sanitize(vid.Name))
			c.locals[c.info.Defs[vid]] = vn
			body := c.stmts(s.Body.List, ind+"    ", ckMode{ret: func(v string) string { return "LoopR.ret " + v + " s" }, fall: "LoopR.next s"}, callable)
			after := c.stmts(rest, ind+"  ", m, callable)
			return fmt.Sprintf("%smatch Go.forM %s s (fun %s s =>\n%s) with\n%s| .ret r_ s => %s\n%s| .next s =>\n%s", ind, xs, vn, body, ind, m.ret("r_"), ind, after)
		})
	}
	ckFail("unsupported statement %T", st)
	return ""
}

// hasCall: does the expression call a client closure
func (c *ckCtx) hasCall(e ast.Expr, callable func(*ast.Ident) bool) bool {
	found := false
	ast.Inspect(e, func(n ast.Node) bool {
		if call, ok := n.(*ast.CallExpr); ok {
			if id, ok := call.Fun.(*ast.Ident); ok && c.isClosure(id, callable) {
				found = true
			}
		}
		return true
	})
	return found
}

func (c *ckCtx) isClosure(id *ast.Ident, callable func(*ast.Ident) bool) bool {
	obj := c.info.Uses[id]
	if obj != nil && c.fnpar[obj] {
		return true
	}
	if obj != nil {
		if _, ok := obj.Type().Underlying().(*types.Signature); ok {
			if _, isVar := obj.(*types.Var); isVar && callable != nil && callable(id) {
				return true
			}
		}
	}
	return false
}

func (c *ckCtx) name(id *ast.Ident) string {
	obj := c.info.Uses[id]
	if n, ok := c.locals[obj]; ok {
		return n
	}
	return sanitize(id.Name)
}

// ev evaluates e (threading the state through the client closures it calls) and continues with k(value)
func (c *ckCtx) ev(e ast.Expr, ind string, callable func(*ast.Ident) bool, k func(v string) string) string {
	if tv, ok := c.info.Types[e]; ok && tv.Value != nil {
		switch tv.Value.Kind().String() {
		case "String":
			return k(leanStr(strings.Trim(tv.Value.ExactString(), `"`)))
		case "Bool":
			return k(tv.Value.ExactString())
		case "Int":
			return k("(" + tv.Value.ExactString() + " : Int)")
		}
	}
	switch x := e.(type) {
	case *ast.ParenExpr:
		return c.ev(x.X, ind, callable, k)
	case *ast.Ident:
		return k(c.name(x))
	case *ast.SelectorExpr:
		if types.ExprString(x) == "c.steps" {
			return k("c.steps")
		}
	case *ast.CallExpr:
		if id, ok := x.Fun.(*ast.Ident); ok {
			if id.Name == "len" && len(x.Args) == 1 {
				return c.ev(x.Args[0], ind, callable, func(v string) string { return k("(Lib.goLen " + v + ")") })
			}
			if c.isClosure(id, callable) && len(x.Args) == 0 {
				v := c.fresh("v")
				return fmt.Sprintf("%slet (%s, s) := %s s\n%s", ind, v, c.name(id), k(v))
			}
		}
	case *ast.BinaryExpr:
		op := x.Op.String()
		switch op {
		case "&&", "||":
			if !c.hasCall(x.Y, callable) {
				return c.ev(x.X, ind, callable, func(a string) string {
					return c.ev(x.Y, ind, callable, func(b string) string { return k("(" + a + " " + op + " " + b + ")") })
				})
			}
			// the right operand runs client code only when the left one does not decide: bind the pair
			t := c.fresh("t")
			inner := c.ev(x.X, ind+"  ", callable, func(a string) string {
				rhs := c.ev(x.Y, ind+"    ", callable, func(b string) string { return ind + "    (" + b + ", s)" })
				if op == "&&" {
					return fmt.Sprintf("%s  if %s then\n%s\n%s  else (false, s)", ind, a, rhs, ind)
				}
				return fmt.Sprintf("%s  if %s then (true, s)\n%s  else\n%s", ind, a, ind, rhs)
			})
			return fmt.Sprintf("%slet (%s, s) : Bool × σ :=\n%s\n%s", ind, t, inner, k(t))
		case "==", "!=":
			if id, ok := x.Y.(*ast.Ident); ok && id.Name == "nil" {
				return c.ev(x.X, ind, callable, func(a string) string {
					if op == "!=" {
						return k(a + ".isSome")
					}
					return k(a + ".isNone")
				})
			}
			return c.ev(x.X, ind, callable, func(a string) string {
				return c.ev(x.Y, ind, callable, func(b string) string { return k("(" + a + " " + op + " " + b + ")") })
			})
		case "<", ">", "<=", ">=":
			return c.ev(x.X, ind, callable, func(a string) string {
				return c.ev(x.Y, ind, callable, func(b string) string { return k("(decide (" + a + " " + op + " " + b + "))") })
			})
		}
	}
	ckFail("unsupported expression %s", types.ExprString(e))
	return ""
}
