package main

// Shared-state facts for C15: what, in the code reachable from a route handler, could carry data from one request
// to another.  Three regenerated tables:
//
//   sharedFields  — every field of the struct types one instance of which serves all requests (Provider,
//                   IdentityProvider, the configuration structs, Endpoints, serviceprovider.ServiceProvider),
//                   with its type.  A cache needs a field (or a package variable).
//   globals       — every package-level variable of every non-test file under pkg/, with its type and whether the
//                   type is one of the kinds that are safe to share (strings and numbers, errors, functions,
//                   *regexp.Regexp, *template.Template, interface assertions `var _ T = …`).
//   touches       — in functions reachable from a route handler (object-level static call graph over all packages
//                   of the module; calls through interfaces and function values are not followed): assignments
//                   through a pointer to one of the shared struct types, assignments to / uses of a non-safe
//                   package variable, and method calls on fields of shared structs whose type comes from package
//                   sync or sync/atomic.

import (
	"fmt"
	"go/ast"
	"go/types"
	"sort"
	"strings"

	"golang.org/x/tools/go/packages"
)

type touchFact struct {
	Func string `json:"func"`
	What string `json:"what"`
	Kind string `json:"kind"`
}

type sharedFacts struct {
	Fields  [][3]string `json:"fields"`
	Globals [][3]string `json:"globals"`
	Touches []touchFact `json:"touches"`
}

var sharedStructs = map[string]bool{
	"provider.Provider": true, "provider.IdentityProvider": true, "provider.IdentityProviderConfig": true, "provider.Config": true,
	"provider.Endpoints": true, "provider.Endpoint": true, "provider.MetadataIDPConfig": true, "provider.MetadataConfig": true,
	"provider.Organisation": true, "provider.ContactPerson": true, "provider.EndpointConfig": true,
	"serviceprovider.ServiceProvider": true, "serviceprovider.Config": true,
}

func qualName(n *types.Named) string {
	if n.Obj().Pkg() == nil {
		return n.Obj().Name()
	}
	return n.Obj().Pkg().Name() + "." + n.Obj().Name()
}

func typeStr(t types.Type) string {
	return types.TypeString(t, func(p *types.Package) string { return p.Name() })
}

// safeGlobalType: kinds of package variables that cannot carry request data between requests
func safeGlobalType(t types.Type) bool {
	switch u := t.(type) {
	case *types.Basic:
		return true
	case *types.Signature:
		return true
	case *types.Named:
		switch typeStr(u) {
		case "error":
			return true
		}
		if b, ok := u.Underlying().(*types.Basic); ok && b != nil {
			return true
		}
		if _, ok := u.Underlying().(*types.Signature); ok {
			return true
		}
		if _, ok := u.Underlying().(*types.Interface); ok {
			return true // errors.New values, interface assertions
		}
	case *types.Pointer:
		switch typeStr(u) {
		case "*regexp.Regexp", "*template.Template":
			return true
		}
	}
	return false
}

func (w *world) sharedState() sharedFacts {
	var out sharedFacts
	var pkgs []*packages.Package
	var keys []string
	for k := range w.pkgs {
		keys = append(keys, k)
	}
	sort.Strings(keys)
	for _, k := range keys {
		pkgs = append(pkgs, w.pkgs[k])
	}
	isTest := func(p *packages.Package, f *ast.File) bool {
		return strings.HasSuffix(p.Fset.Position(f.Pos()).Filename, "_test.go")
	}
	// ---- fields of the shared structs
	for _, p := range pkgs {
		sc := p.Types.Scope()
		for _, n := range sc.Names() {
			tn, ok := sc.Lookup(n).(*types.TypeName)
			if !ok {
				continue
			}
			named, ok := tn.Type().(*types.Named)
			if !ok || !sharedStructs[qualName(named)] {
				continue
			}
			st, ok := named.Underlying().(*types.Struct)
			if !ok {
				continue
			}
			for i := 0; i < st.NumFields(); i++ {
				out.Fields = append(out.Fields, [3]string{qualName(named), st.Field(i).Name(), typeStr(st.Field(i).Type())})
			}
		}
	}
	// ---- package variables
	unsafeGlobals := map[types.Object]string{}
	for _, p := range pkgs {
		for _, f := range p.Syntax {
			if isTest(p, f) {
				continue
			}
			for _, d := range f.Decls {
				gd, ok := d.(*ast.GenDecl)
				if !ok {
					continue
				}
				for _, sp := range gd.Specs {
					vs, ok := sp.(*ast.ValueSpec)
					if !ok {
						continue
					}
					for _, id := range vs.Names {
						obj, ok := p.TypesInfo.Defs[id].(*types.Var)
						if !ok {
							continue // constants
						}
						name := p.Types.Name() + "." + id.Name
						safe := safeGlobalType(obj.Type()) || id.Name == "_"
						kind := "safe"
						if !safe {
							kind = "mutable"
							unsafeGlobals[obj] = name
						}
						out.Globals = append(out.Globals, [3]string{name, typeStr(obj.Type()), kind})
					}
				}
			}
		}
	}
	sort.Slice(out.Globals, func(i, j int) bool { return out.Globals[i][0] < out.Globals[j][0] })
	// ---- object-level call graph
	type fnode struct {
		p    *packages.Package
		decl *ast.FuncDecl
		name string
	}
	nodes := map[*types.Func]*fnode{}
	calls := map[*types.Func][]*types.Func{}
	for _, p := range pkgs {
		for _, f := range p.Syntax {
			if isTest(p, f) {
				continue
			}
			for _, d := range f.Decls {
				fd, ok := d.(*ast.FuncDecl)
				if !ok || fd.Body == nil {
					continue
				}
				obj, ok := p.TypesInfo.Defs[fd.Name].(*types.Func)
				if !ok {
					continue
				}
				name := p.Types.Name() + "." + fd.Name.Name
				if fd.Recv != nil && len(fd.Recv.List) == 1 {
					t := p.TypesInfo.TypeOf(fd.Recv.List[0].Type)
					if pt, ok := t.(*types.Pointer); ok {
						t = pt.Elem()
					}
					if n, ok := t.(*types.Named); ok {
						name = p.Types.Name() + "." + n.Obj().Name() + "." + fd.Name.Name
					}
				}
				nodes[obj] = &fnode{p, fd, name}
				ast.Inspect(fd, func(n ast.Node) bool {
					if id, ok := n.(*ast.Ident); ok {
						if callee, ok := p.TypesInfo.Uses[id].(*types.Func); ok {
							calls[obj] = append(calls[obj], callee)
						}
					}
					return true
				})
			}
		}
	}
	roots := map[string]bool{"ssoHandleFunc": true, "callbackHandleFunc": true, "logoutHandleFunc": true, "attributeQueryHandleFunc": true,
		"certificateHandleFunc": true, "metadataHandle": true, "healthHandler": true, "readyHandler": true, "Readiness": true, "setIssuerCtx": true,
		"Handler": true, "HandlerFunc": true, "AuthCallbackResponse": true, "AuthCallbackErrorResponse": true, "AuthCallbackURL": true,
		// a ServiceProvider is handed out by the integrator's storage and used by every request naming it
		"ValidateRedirectSignature": true, "ValidatePostSignature": true, "ValidateAttributeQuerySignature": true, "LoginURL": true, "GetEntityID": true}
	reach := map[*types.Func]bool{}
	var visit func(f *types.Func)
	visit = func(f *types.Func) {
		if reach[f] {
			return
		}
		reach[f] = true
		for _, c := range calls[f] {
			if _, ok := nodes[c]; ok {
				visit(c)
			}
		}
	}
	for f, n := range nodes {
		if roots[n.decl.Name.Name] {
			visit(f)
		}
	}
	// ---- touches
	var fs []*types.Func
	for f := range nodes {
		if reach[f] {
			fs = append(fs, f)
		}
	}
	sort.Slice(fs, func(i, j int) bool { return nodes[fs[i]].name < nodes[fs[j]].name })
	seen := map[string]bool{}
	add := func(fn, what, kind string) {
		k := fn + "|" + what + "|" + kind
		if !seen[k] {
			seen[k] = true
			out.Touches = append(out.Touches, touchFact{fn, what, kind})
		}
	}
	for _, f := range fs {
		nd := nodes[f]
		p := nd.p
		rootOf := func(e ast.Expr) (*ast.Ident, int) {
			depth := 0
			for {
				switch x := e.(type) {
				case *ast.SelectorExpr:
					e = x.X
					depth++
					continue
				case *ast.IndexExpr:
					e = x.X
					depth++
					continue
				case *ast.StarExpr:
					e = x.X
					depth++
					continue
				case *ast.ParenExpr:
					e = x.X
					continue
				}
				break
			}
			id, _ := e.(*ast.Ident)
			return id, depth
		}
		sharedPtr := func(v *types.Var) (string, bool) {
			t := v.Type()
			pt, ok := t.(*types.Pointer)
			if !ok {
				return "", false
			}
			if n, ok := pt.Elem().(*types.Named); ok && sharedStructs[qualName(n)] {
				return qualName(n), true
			}
			return "", false
		}
		// locals that hold a freshly allocated value (`x := &T{…}`, `x := new(T)`): writes through them are not shared
		fresh := map[*types.Var]bool{}
		ast.Inspect(nd.decl, func(n ast.Node) bool {
			as, ok := n.(*ast.AssignStmt)
			if !ok || as.Tok.String() != ":=" || len(as.Lhs) != len(as.Rhs) {
				return true
			}
			for i, l := range as.Lhs {
				id, ok := l.(*ast.Ident)
				if !ok {
					continue
				}
				v, ok := p.TypesInfo.Defs[id].(*types.Var)
				if !ok {
					continue
				}
				switch r := as.Rhs[i].(type) {
				case *ast.UnaryExpr:
					if _, ok := r.X.(*ast.CompositeLit); ok && r.Op.String() == "&" {
						fresh[v] = true
					}
				case *ast.CallExpr:
					if fid, ok := r.Fun.(*ast.Ident); ok && fid.Name == "new" {
						fresh[v] = true
					}
				}
			}
			return true
		})
		recordAssign := func(lhs ast.Expr) {
			id, depth := rootOf(lhs)
			if id == nil {
				return
			}
			v, ok := p.TypesInfo.Uses[id].(*types.Var)
			if !ok {
				return
			}
			if v.Parent() != nil && v.Parent() == v.Pkg().Scope() {
				add(nd.name, "global "+types.ExprString(lhs), "assign-global")
				return
			}
			if depth == 0 || fresh[v] {
				return
			}
			if tn, ok := sharedPtr(v); ok {
				add(nd.name, tn+": "+types.ExprString(lhs), "assign-shared")
			}
		}
		ast.Inspect(nd.decl, func(n ast.Node) bool {
			switch x := n.(type) {
			case *ast.AssignStmt:
				for _, l := range x.Lhs {
					recordAssign(l)
				}
			case *ast.IncDecStmt:
				recordAssign(x.X)
			case *ast.Ident:
				if v, ok := p.TypesInfo.Uses[x].(*types.Var); ok {
					if name, bad := unsafeGlobals[v]; bad {
						add(nd.name, name+" : "+typeStr(v.Type()), "use-mutable-global")
					}
				}
			case *ast.CallExpr:
				// method call on a field (at any depth) of a shared struct whose type comes from sync / sync/atomic
				sel, ok := x.Fun.(*ast.SelectorExpr)
				if !ok {
					return true
				}
				recvT := p.TypesInfo.TypeOf(sel.X)
				if recvT == nil {
					return true
				}
				if pt, ok := recvT.(*types.Pointer); ok {
					recvT = pt.Elem()
				}
				n2, ok := recvT.(*types.Named)
				if !ok || n2.Obj().Pkg() == nil {
					return true
				}
				if pp := n2.Obj().Pkg().Path(); pp != "sync" && pp != "sync/atomic" {
					return true
				}
				id, depth := rootOf(sel.X)
				if id == nil || depth == 0 {
					return true
				}
				if v, ok := p.TypesInfo.Uses[id].(*types.Var); ok {
					if tn, ok := sharedPtr(v); ok {
						add(nd.name, fmt.Sprintf("%s: %s.%s()", tn, types.ExprString(sel.X), sel.Sel.Name), "sync-on-shared")
					}
				}
			}
			return true
		})
	}
	return out
}

func (w *world) emitSharedFacts(sb *strings.Builder) {
	sf := w.sharedState()
	sb.WriteString("/-- fields of the struct types one instance of which serves every request: (struct, field, type) -/\ndef sharedFields : List (String × String × String) := [\n")
	for i, f := range sf.Fields {
		comma := ","
		if i == len(sf.Fields)-1 {
			comma = ""
		}
		fmt.Fprintf(sb, "  (%s, %s, %s)%s\n", leanStr(f[0]), leanStr(f[1]), leanStr(f[2]), comma)
	}
	sb.WriteString("]\n\n/-- package-level variables of all non-test files: (name, type, \"safe\" | \"mutable\") -/\ndef globals : List (String × String × String) := [\n")
	for i, g := range sf.Globals {
		comma := ","
		if i == len(sf.Globals)-1 {
			comma = ""
		}
		fmt.Fprintf(sb, "  (%s, %s, %s)%s\n", leanStr(g[0]), leanStr(g[1]), leanStr(g[2]), comma)
	}
	sb.WriteString("]\n\n/-- in code reachable from a route handler: writes through shared receivers, writes to / uses of mutable package variables, sync primitives on shared structs: (function, what, kind) -/\ndef sharedTouches : List (String × String × String) := [\n")
	for i, t := range sf.Touches {
		comma := ","
		if i == len(sf.Touches)-1 {
			comma = ""
		}
		fmt.Fprintf(sb, "  (%s, %s, %s)%s\n", leanStr(t.Func), leanStr(t.What), leanStr(t.Kind), comma)
	}
	sb.WriteString("]\n\n")
}
