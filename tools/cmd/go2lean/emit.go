package main

import (
	"encoding/json"
	"fmt"
	"go/types"
	"sort"
	"strings"
)

// splitTop splits s at top-level occurrences of sep (outside parentheses).
func splitTop(s, sep string) []string {
	var out []string
	depth := 0
	last := 0
	for i := 0; i < len(s); i++ {
		switch s[i] {
		case '(':
			depth++
		case ')':
			depth--
		}
		if depth == 0 && strings.HasPrefix(s[i:], sep) {
			out = append(out, strings.TrimSpace(s[last:i]))
			last = i + len(sep)
			i += len(sep) - 1
		}
	}
	out = append(out, strings.TrimSpace(s[last:]))
	return out
}

func stripParens(s string) string {
	s = strings.TrimSpace(s)
	for strings.HasPrefix(s, "(") && strings.HasSuffix(s, ")") {
		// make sure the parens match each other
		depth := 0
		ok := true
		for i := 0; i < len(s)-1; i++ {
			if s[i] == '(' {
				depth++
			} else if s[i] == ')' {
				depth--
			}
			if depth == 0 {
				ok = false
				break
			}
		}
		if !ok {
			break
		}
		s = strings.TrimSpace(s[1 : len(s)-1])
	}
	return s
}

// zeroOfLean gives the token encoding of the zero value of a generated Lean type.
func (w *world) zeroOfLean(t string) []string {
	t = stripParens(t)
	if parts := splitTop(t, " × "); len(parts) > 1 {
		var out []string
		out = append(out, w.zeroOfLean(parts[0])...)
		out = append(out, w.zeroOfLean(strings.Join(parts[1:], " × "))...)
		return out
	}
	switch {
	case t == "String", t == "Lib.Bytes":
		return []string{"x"}
	case t == "Int", t == "Bool":
		return []string{"0"}
	case t == "Err", strings.HasPrefix(t, "Option "):
		return []string{"-"}
	case strings.HasPrefix(t, "List "):
		return []string{"0"}
	case t == "Unit":
		return nil
	case t == "Lib.Stream":
		return []string{"x", "0"}
	case t == "UrlRec":
		return []string{"x", "x", "x", "x", "0", "x", "0"}
	case t == "KeyRec":
		return []string{"0"}
	}
	if si, ok := w.structs[t]; ok {
		var out []string
		for _, f := range w.structFields(si) {
			out = append(out, w.zeroOfLean(w.leanType(f.Type()))...)
		}
		return out
	}
	panic("zeroOfLean: " + t)
}

func (w *world) emitDriver() string {
	var sb strings.Builder
	sb.WriteString(header)
	sb.WriteString("import SamlModel.Generated.Funcs\nimport SamlModel.Tok\n\nopen Go Tok\nset_option linter.unusedVariables false\n\nnamespace Gen\n\n")
	sb.WriteString("instance : Codec UrlRec where\n  enc v := enc v.Scheme ++ enc v.Host ++ enc v.Fragment ++ enc v.RawQuery ++ enc v.ForceQuery ++ enc v.hostname ++ enc v.queryKeys\n  dec ts := do\n    let (a, ts) ← (dec ts : Option (String × _))\n    let (b, ts) ← (dec ts : Option (String × _))\n    let (c, ts) ← (dec ts : Option (String × _))\n    let (q, ts) ← (dec ts : Option (String × _))\n    let (f, ts) ← (dec ts : Option (Bool × _))\n    let (h, ts) ← (dec ts : Option (String × _))\n    let (d, ts) ← (dec ts : Option (List String × _))\n    pure ({ Scheme := a, Host := b, Fragment := c, RawQuery := q, ForceQuery := f, hostname := h, queryKeys := d }, ts)\n\n")
	sb.WriteString("instance : Codec KeyRec where\n  enc v := enc v.isZero\n  dec ts := do\n    let (a, ts) ← (dec ts : Option (Bool × _))\n    pure ({ isZero := a }, ts)\n\n")
	for _, si := range w.structOrder() {
		fs := w.structFields(si)
		fmt.Fprintf(&sb, "instance : Codec %s where\n", si.lean)
		if len(fs) == 0 {
			sb.WriteString("  enc _ := []\n  dec ts := some ({}, ts)\n\n")
			continue
		}
		var encs []string
		for _, f := range fs {
			encs = append(encs, "enc v."+f.Name())
		}
		fmt.Fprintf(&sb, "  enc v := %s\n  dec ts := do\n", strings.Join(encs, " ++ "))
		var inits []string
		for i, f := range fs {
			fmt.Fprintf(&sb, "    let (f%d, ts) ← (dec ts : Option (%s × _))\n", i, w.leanType(f.Type()))
			inits = append(inits, fmt.Sprintf("%s := f%d", f.Name(), i))
		}
		fmt.Fprintf(&sb, "    pure ({ %s }, ts)\n\n", strings.Join(inits, ", "))
	}
	if len(w.effOrd) > 0 {
		// effect traces are results only: encoded, never decoded
		sb.WriteString("instance : Codec Eff where\n  enc v := match v with\n")
		for _, n := range w.effOrd {
			var as, encs []string
			for i := range w.effs[n] {
				as = append(as, fmt.Sprintf("a%d", i))
				encs = append(encs, fmt.Sprintf("enc a%d", i))
			}
			fmt.Fprintf(&sb, "    | .%s %s => [%s] ++ %s\n", n, strings.Join(as, " "), leanStr(n), strings.Join(encs, " ++ "))
		}
		sb.WriteString("  dec _ := none\n\n")
	}
	// oracle decoder
	// the decoder is emitted in chunks: one do-block over all oracles makes the compiler's work grow much faster than
	// the number of oracles
	type oraField struct{ name, ty, init string }
	var fields []oraField
	for _, n := range w.oraOrd {
		o := w.oracles[n]
		parts := splitTop(o.typ, " → ")
		if len(parts) == 1 {
			fields = append(fields, oraField{n, "(" + o.typ + ")", "%s"})
		} else {
			res := parts[len(parts)-1]
			var as, encs []string
			for i := range parts[:len(parts)-1] {
				as = append(as, fmt.Sprintf("a%d", i))
				encs = append(encs, fmt.Sprintf("enc a%d", i))
			}
			fields = append(fields, oraField{n, "(Table (" + res + "))", fmt.Sprintf("fun %s => %%s.get (%s)", strings.Join(as, " "), strings.Join(encs, " ++ "))})
		}
	}
	const chunk = 6
	var inits []string
	nchunks := 0
	for i := 0; i < len(fields); i += chunk {
		j := i + chunk
		if j > len(fields) {
			j = len(fields)
		}
		var tys, names []string
		for _, f := range fields[i:j] {
			tys = append(tys, f.ty)
			names = append(names, f.name)
		}
		fmt.Fprintf(&sb, "def decOraP%d (ts : List String) : Option ((%s) × List String) := do\n", nchunks, strings.Join(tys, " × "))
		for _, f := range fields[i:j] {
			fmt.Fprintf(&sb, "  let (%s, ts) ← (dec ts : Option (%s × _))\n", f.name, f.ty)
		}
		fmt.Fprintf(&sb, "  pure ((%s), ts)\n\n", strings.Join(names, ", "))
		for k, f := range fields[i:j] {
			proj := fmt.Sprintf("p%d", nchunks) + tupleProj(k, j-i)
			inits = append(inits, fmt.Sprintf("%s := %s", f.name, fmt.Sprintf(f.init, "("+proj+")")))
		}
		nchunks++
	}
	sb.WriteString("def decOra (ts : List String) : Option (Ora × List String) := do\n")
	for k := 0; k < nchunks; k++ {
		fmt.Fprintf(&sb, "  let (p%d, ts) ← decOraP%d ts\n", k, k)
	}
	if len(inits) == 0 {
		sb.WriteString("  pure ({}, ts)\n\n")
	} else {
		fmt.Fprintf(&sb, "  pure ({ %s }, ts)\n\n", strings.Join(inits, ", "))
	}
	// one definition per function (a single match with all the bodies makes the compiler's work grow much faster
	// than the number of functions), then the dispatch
	var cases []string
	for _, spec := range whitelist {
		f := w.funcs[spec.key()]
		if f.failed != "" {
			continue
		}
		fmt.Fprintf(&sb, "def fnCall_%s (ts : List String) : Option (List String) := do\n  let (o, ts) ← decOra ts\n", f.lean)
		var args []string
		i := 0
		for _, p := range f.params {
			if p.kind == "ignored" || p.kind == "setter" || p.name == "_" || p.name == "" {
				continue
			}
			fmt.Fprintf(&sb, "  let (a%d, ts) ← (dec ts : Option (%s × _))\n", i, p.leanTy)
			args = append(args, fmt.Sprintf("a%d", i))
			i++
		}
		fmt.Fprintf(&sb, "  if !ts.isEmpty then none else\n  pure (enc (%s o %s))\n\n", f.lean, strings.Join(args, " "))
		cases = append(cases, fmt.Sprintf("  | %s => fnCall_%s ts\n", leanStr(f.lean), f.lean))
	}
	sb.WriteString("/-- `fn <name> <oracle answers> <arguments>` → tokens of the result -/\ndef fnDispatch (name : String) (ts : List String) : Option (List String) :=\n  match name with\n")
	sb.WriteString(strings.Join(cases, ""))
	sb.WriteString("  | _ => none\n\nend Gen\n")
	return sb.String()
}

type metaField struct {
	Go   string `json:"go"`
	Lean string `json:"lean"`
}
type metaParam struct {
	Name string `json:"name"`
	Kind string `json:"kind"`
	Lean string `json:"lean"`
}
type metaFunc struct {
	Key     string      `json:"key"`
	Lean    string      `json:"lean"`
	Params  []metaParam `json:"params"`
	Ret     []string    `json:"ret"`
	UsesOra bool        `json:"uses_ora"`
	Failed  string      `json:"failed,omitempty"`
}
type metaOra struct {
	Name  string   `json:"name"`
	Type  string   `json:"type"`
	Table bool     `json:"table"`
	Zero  []string `json:"zero"`
}
type metaAll struct {
	Structs map[string][]metaField `json:"structs"`
	Funcs   []metaFunc             `json:"funcs"`
	Oracles []metaOra              `json:"oracles"`
	Pool    []string               `json:"pool"`
	Facts   map[string]interface{} `json:"facts"`
}

func (w *world) emitMeta() string {
	m := metaAll{Structs: map[string][]metaField{}, Facts: w.factsJSON()}
	for _, si := range w.structOrder() {
		var fs []metaField
		for _, f := range w.structFields(si) {
			fs = append(fs, metaField{f.Name(), w.leanType(f.Type())})
		}
		m.Structs[si.lean] = fs
	}
	for _, spec := range whitelist {
		f := w.funcs[spec.key()]
		mf := metaFunc{Key: spec.key(), Lean: f.lean, UsesOra: f.usesOra, Failed: f.failed}
		if f.failed == "" {
			for _, p := range f.params {
				kind := p.kind
				if kind == "setter" {
					kind = "ignored" // the plain definition drops func(error) parameters
				}
				mf.Params = append(mf.Params, metaParam{p.name, kind, p.leanTy})
			}
			for _, t := range f.resTypes {
				mf.Ret = append(mf.Ret, w.leanType(t))
			}
		}
		m.Funcs = append(m.Funcs, mf)
	}
	for _, n := range w.oraOrd {
		o := w.oracles[n]
		parts := splitTop(o.typ, " → ")
		mo := metaOra{Name: n, Type: o.typ, Table: len(parts) > 1}
		mo.Zero = w.zeroOfLean(parts[len(parts)-1])
		if mo.Zero == nil {
			mo.Zero = []string{}
		}
		if mo.Table {
			mo.Zero = append(mo.Zero, "0")
		}
		m.Oracles = append(m.Oracles, mo)
	}
	for s := range w.pool {
		m.Pool = append(m.Pool, s)
	}
	sort.Strings(m.Pool)
	b, _ := json.MarshalIndent(m, "", " ")
	return string(b) + "\n"
}

// emitShim writes a build-tagged file for package provider exporting the unexported whitelisted functions.
func (w *world) emitShim() string {
	var sb strings.Builder
	sb.WriteString("//go:build verif\n\n// GENERATED by /verif/tools/cmd/go2lean; injected with `go build -overlay`, never written under /repo.\npackage provider\n\n// VerifExports gives the correspondence harness access to unexported helpers.\nvar VerifExports = map[string]interface{}{\n")
	emitted := map[string]bool{}
	for _, spec := range whitelist {
		f := w.funcs[spec.key()]
		if f.failed != "" && f.decl == nil {
			continue
		}
		if spec.Pkg != "pkg/provider" || spec.Recv != "" {
			continue
		}
		if f.obj == nil || f.obj.Exported() {
			continue
		}
		if _, ok := f.obj.Type().(*types.Signature); !ok {
			continue
		}
		if emitted[spec.Name] {
			continue
		}
		fmt.Fprintf(&sb, "\t%q: %s,\n", spec.Name, spec.Name)
		emitted[spec.Name] = true
	}
	for _, name := range shimExtra {
		if emitted[name] {
			continue
		}
		if p := w.pkgs["pkg/provider"]; p != nil {
			if obj := p.Types.Scope().Lookup(name); obj != nil {
				if _, ok := obj.Type().(*types.Signature); ok {
					fmt.Fprintf(&sb, "\t%q: %s,\n", name, name)
				}
			}
		}
	}
	// string constants the harness needs verbatim (the page templates)
	if p := w.pkgs["pkg/provider"]; p != nil {
		sb.WriteString("\t\"consts\": map[string]string{\n")
		for _, name := range shimConsts {
			if obj, ok := p.Types.Scope().Lookup(name).(*types.Const); ok && obj != nil {
				fmt.Fprintf(&sb, "\t\t%q: %s,\n", name, name)
			}
		}
		sb.WriteString("\t},\n")
	}
	sb.WriteString("}\n")
	return sb.String()
}

var shimConsts = []string{"postTemplate", "logoutTemplate"}

// shimExtra: unexported, untranslated helpers the harness calls to obtain the library's own view of a request.
var shimExtra = []string{"getAuthRequestFromRequest", "getLogoutRequestFromRequest", "makeAttributeQueryResponse", "makeAssertion", "makeResponse", "createRedirectSignature", "createPostSignature", "getMetadataCert"}
