package main

func (w *world) emitFacts() string  { return header + "namespace Gen.Facts\nend Gen.Facts\n" }
func (w *world) emitDriver() string { return header }
func (w *world) emitMeta() string   { return "{}" }
func (w *world) emitShim() string   { return "" }
