package main

// schema.go — the XML schema of the wire types, read from the struct definitions and their `xml` tags the way
// encoding/xml's typeinfo does (structFieldInfo: namespace split, flags, defaulting of the element name), emitted as
// Lean data (Generated/Schema.lean).  The generic marshaller model Lib.XmlMarshal interprets it.

import (
	"fmt"
	"go/types"
	"path/filepath"
	"reflect"
	"sort"
	"strings"
)

var schemaPkgs = []string{"pkg/provider/xml/samlp", "pkg/provider/xml/saml", "pkg/provider/xml/soap", "pkg/provider/xml/md", "pkg/provider/xml/xml_dsig", "pkg/provider/xml/xenc"}

type schemaField struct {
	Go, Name, NS, Mode, Ty string
	OmitEmpty, Ptr, Slice bool
}

type schemaType struct {
	Name   string
	Fields []schemaField
	Bad    string // a construct the model does not cover
}

func qual(p *types.Package) string { return p.Name() }

// xmlNameTag returns (ns, name, true) if the (pointer-stripped) type is a struct with an XMLName field.
func xmlNameTag(t types.Type) (string, string, bool) {
	for {
		p, ok := t.(*types.Pointer)
		if !ok {
			break
		}
		t = p.Elem()
	}
	st, ok := t.Underlying().(*types.Struct)
	if !ok {
		return "", "", false
	}
	for i := 0; i < st.NumFields(); i++ {
		if st.Field(i).Name() == "XMLName" {
			tag := reflect.StructTag(st.Tag(i)).Get("xml")
			ns := ""
			if a, b, ok := strings.Cut(tag, " "); ok {
				ns, tag = a, b
			}
			tag = strings.Split(tag, ",")[0]
			return ns, tag, true
		}
	}
	return "", "", false
}

func (w *world) schema() []schemaType {
	var out []schemaType
	for _, pk := range schemaPkgs {
		p := w.pkgs[pk]
		if p == nil {
			continue
		}
		names := p.Types.Scope().Names()
		sort.Strings(names)
		for _, n := range names {
			tn, ok := p.Types.Scope().Lookup(n).(*types.TypeName)
			if !ok {
				continue
			}
			st, ok := tn.Type().Underlying().(*types.Struct)
			if !ok {
				continue
			}
			ti := schemaType{Name: filepath.Base(pk) + "." + n}
			for i := 0; i < st.NumFields(); i++ {
				f := st.Field(i)
				raw := reflect.StructTag(st.Tag(i)).Get("xml")
				if !f.Exported() && !f.Embedded() || raw == "-" {
					continue
				}
				if f.Embedded() {
					ti.Bad = "embedded field " + f.Name()
				}
				sf := schemaField{Go: f.Name()}
				tag := raw
				if a, b, ok := strings.Cut(tag, " "); ok {
					sf.NS, tag = a, b
				}
				tokens := strings.Split(tag, ",")
				tag = tokens[0]
				sf.Mode = "elem"
				for _, fl := range tokens[1:] {
					switch fl {
					case "attr":
						sf.Mode = "attr"
					case "chardata":
						sf.Mode = "chardata"
					case "innerxml":
						sf.Mode = "innerxml"
					case "any":
						sf.Mode = "elem"
					case "omitempty":
						sf.OmitEmpty = true
					default:
						ti.Bad = "flag " + fl + " on " + f.Name()
					}
				}
				if strings.Contains(tag, ">") {
					ti.Bad = "parent chain on " + f.Name()
				}
				// type
				t := f.Type()
				if s, ok := t.(*types.Slice); ok {
					if b, ok := s.Elem().Underlying().(*types.Basic); !ok || b.Kind() != types.Uint8 {
						sf.Slice = true
						t = s.Elem()
					}
				}
				if pt, ok := t.(*types.Pointer); ok {
					sf.Ptr = true
					t = pt.Elem()
				}
				switch u := t.Underlying().(type) {
				case *types.Basic:
					switch {
					case u.Info()&types.IsString != 0:
						sf.Ty = "string"
					case u.Info()&types.IsBoolean != 0:
						sf.Ty = "bool"
					case u.Info()&types.IsUnsigned != 0:
						sf.Ty = "uint"
					case u.Info()&types.IsInteger != 0:
						sf.Ty = "int"
					default:
						ti.Bad = "basic type of " + f.Name()
					}
				case *types.Struct:
					sf.Ty = "struct:" + types.TypeString(t, qual)
				default:
					ti.Bad = "type of " + f.Name() + ": " + types.TypeString(t, qual)
				}
				if f.Name() == "XMLName" {
					sf.Mode = "xmlname"
					sf.Name = tag
					ti.Fields = append(ti.Fields, sf)
					continue
				}
				if tag == "" && (sf.Mode == "elem" || sf.Mode == "attr") {
					// default: XMLName tag of the (pointer-stripped, not slice-stripped) field type, else the field name
					if ns, name, ok := xmlNameTag(f.Type()); ok && name != "" {
						sf.NS, sf.Name = ns, name
					} else {
						sf.Name = f.Name()
					}
				} else {
					sf.Name = tag
				}
				ti.Fields = append(ti.Fields, sf)
			}
			out = append(out, ti)
		}
	}
	return out
}

func leanBool(b bool) string {
	if b {
		return "true"
	}
	return "false"
}

func (w *world) emitSchema() string {
	var sb strings.Builder
	sb.WriteString(header)
	sb.WriteString("namespace Gen.Schema\n\n")
	sb.WriteString("structure Field where\n  go : String\n  name : String\n  ns : String\n  mode : String\n  omitempty : Bool\n  ptr : Bool\n  slice : Bool\n  ty : String\nderiving Repr, DecidableEq\n\n")
	sb.WriteString("structure TypeInfo where\n  tname : String\n  fields : List Field\n  bad : String\nderiving Repr, DecidableEq\n\n")
	ts := w.schema()
	for i, t := range ts {
		fmt.Fprintf(&sb, "def t%d : TypeInfo := { tname := %s, bad := %s, fields := [\n", i, leanStr(t.Name), leanStr(t.Bad))
		for j, f := range t.Fields {
			comma := ","
			if j == len(t.Fields)-1 {
				comma = ""
			}
			fmt.Fprintf(&sb, "  ⟨%s, %s, %s, %s, %s, %s, %s, %s⟩%s\n", leanStr(f.Go), leanStr(f.Name), leanStr(f.NS), leanStr(f.Mode), leanBool(f.OmitEmpty), leanBool(f.Ptr), leanBool(f.Slice), leanStr(f.Ty), comma)
		}
		sb.WriteString("] }\n")
	}
	sb.WriteString("\ndef types : List TypeInfo := [")
	for i := range ts {
		if i > 0 {
			sb.WriteString(", ")
		}
		fmt.Fprintf(&sb, "t%d", i)
	}
	sb.WriteString("]\n\nend Gen.Schema\n")
	return sb.String()
}
