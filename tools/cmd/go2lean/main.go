// go2lean: translate a whitelisted subset of /repo's Go functions into Lean 4 (GoSem target)
// and extract structural facts (chain skeletons, constants, templates, struct tags, write-sets).
//
// Usage: go2lean -repo /repo -out <lean Generated dir> -meta <json> -shim <go file>
package main

import (
	"encoding/json"
	"flag"
	"fmt"
	"regexp"
	"go/ast"
	"go/types"
	"os"
	"path/filepath"
	"sort"
	"strings"

	"golang.org/x/tools/go/packages"
)

const modPath = "github.com/zitadel/saml/"

// FuncSpec names one function of the whitelist.
type FuncSpec struct {
	Pkg  string // package path below the module, e.g. "pkg/provider"
	Recv string // receiver type name ("" for plain functions)
	Name string
	// Part selects one level of a function of the shape
	//   func f(a…) func(b…) (T, error) { return func(b…) (T, error) { …checks…; return func(c…) R { …body… }, nil } }
	// "validate": the checks of the first closure (parameters a…, b…; result: the error), "derive": the body of the
	// second closure (parameters a…, b…, c…; result R).  "" = the function itself.
	Part string
}

func (f FuncSpec) key() string {
	k := f.Pkg + "." + f.Name
	if f.Recv != "" {
		k = f.Pkg + "." + f.Recv + "." + f.Name
	}
	if f.Part != "" {
		k += "#" + f.Part
	}
	return k
}

func (f FuncSpec) lean() string {
	n := f.Name
	if f.Recv != "" {
		n = f.Recv + "_" + f.Name
	}
	if f.Part != "" {
		n += "_" + f.Part
	}
	return n
}

var whitelist = []FuncSpec{
	{"pkg/provider", "", "isXSBooleanTrue", ""},
	{"pkg/provider", "", "equalCertificateText", ""},
	{"pkg/provider", "", "GetAcsUrlAndBindingForResponse", ""},
	{"pkg/provider", "", "signaturePostProvided", ""},
	{"pkg/provider", "", "signaturePostVerificationNecessary", ""},
	{"pkg/provider", "", "signatureRedirectVerificationNecessary", ""},
	{"pkg/provider", "", "certificateCheckNecessary", ""},
	{"pkg/provider", "", "checkCertificate", ""},
	{"pkg/provider", "", "checkIfRequestTimeIsStillValid", ""},
	{"pkg/provider", "", "verifyRequestDestinationOfAuthRequest", ""},
	{"pkg/provider", "", "verifyRequestDestinationOfAttrQuery", ""},
	{"pkg/provider/serviceprovider", "ServiceProvider", "GetEntityID", ""},
	{"pkg/provider", "", "checkRequestRequiredContent", ""},
	{"pkg/provider", "", "verifyRedirectSignature", ""},
	{"pkg/provider", "", "verifyPostSignature", ""},
	{"pkg/provider", "", "BuildRedirectQuery", ""},
	{"pkg/provider", "", "relativeEndpoint", ""},
	{"pkg/provider", "", "absoluteEndpoint", ""},
	{"pkg/provider", "Endpoint", "Relative", ""},
	{"pkg/provider", "Endpoint", "Absolute", ""},
	{"pkg/provider", "", "dynamicIssuer", ""},
	{"pkg/provider", "", "devLocalAllowed", ""},
	{"pkg/provider", "", "hasQueryOrFragment", ""},
	{"pkg/provider", "", "ValidateIssuerPath", ""},
	{"pkg/provider", "", "ValidateIssuer", ""},
	{"pkg/provider", "Attributes", "GetNameID", ""},
	{"pkg/provider", "Attributes", "GetSAML", ""},
	{"pkg/provider/xml", "", "GetCertsFromKeyDescriptors", ""},
	{"pkg/provider/xml", "", "InflateAndDecode", ""},
	{"pkg/provider", "", "getResponseCert", ""},
	{"pkg/provider", "", "getIssuer", ""},
	{"pkg/provider", "", "makeResponse", ""},
	{"pkg/provider", "", "makeAssertion", ""},
	{"pkg/provider", "", "makeLogoutResponse", ""},
	{"pkg/provider", "", "NewEndpoint", ""},
	{"pkg/provider", "", "NewEndpointWithURL", ""},
	{"pkg/provider", "", "endpointConfigToEndpoints", ""},
	{"pkg/provider", "Response", "makeAssertionResponse", ""},
	{"pkg/provider", "Response", "makeFailedResponse", ""},
	{"pkg/provider", "Response", "makeSuccessfulResponse", ""},
	{"pkg/provider", "", "createSignature", ""},
	{"pkg/provider", "IdentityProvider", "loginResponse", ""},
	{"pkg/provider", "IdentityProvider", "errorResponse", ""},
	{"pkg/provider", "IdentityProvider", "callbackHandleFunc", ""},
	{"pkg/provider", "Response", "sendBackResponse", ""},
	{"pkg/provider", "LogoutResponse", "makeFailedLogoutResponse", ""},
	{"pkg/provider", "LogoutResponse", "makeSuccessfulLogoutResponse", ""},
	{"pkg/provider", "LogoutResponse", "sendBackLogoutResponse", ""},
	{"pkg/provider", "", "getLogoutRequestFromRequest", ""},
	{"pkg/provider", "IdentityProvider", "logoutHandleFunc", ""},
	{"pkg/provider", "", "makeAttributeQueryResponse", ""},
	{"pkg/provider", "IdentityProvider", "attributeQueryHandleFunc", ""},
	{"pkg/provider", "", "getAuthRequestFromRequest", ""},
	{"pkg/provider", "IdentityProvider", "ssoHandleFunc", ""},
	{"pkg/provider", "", "getMetadataCert", ""},
	{"pkg/provider", "Config", "getMetadata", ""},
	{"pkg/provider", "Provider", "GetMetadata", ""},
	{"pkg/provider", "Provider", "metadataHandle", ""},
	{"pkg/provider/serviceprovider", "ServiceProvider", "ValidateRedirectSignature", ""},
	{"pkg/provider/xml", "", "DecodeAuthNRequest", ""},
	{"pkg/provider/xml", "", "DecodeLogoutRequest", ""},
	{"pkg/provider", "IdentityProviderConfig", "getMetadata", ""},
	{"pkg/provider", "IdentityProvider", "GetEntityID", ""},
	{"pkg/provider", "IdentityProvider", "GetMetadata", ""},
	{"pkg/provider", "", "createRedirectSignature", ""},
	{"pkg/provider/serviceprovider", "", "getSigningCertsFromMetadata", ""},
	{"pkg/provider/serviceprovider", "", "NewServiceProvider", ""},
	{Pkg: "pkg/provider", Recv: "IdentityProvider", Name: "certificateHandleFunc"},
	{Pkg: "pkg/provider", Recv: "IdentityProvider", Name: "GetServiceProvider"},
	{Pkg: "pkg/provider", Name: "createPostSignature"},
	{Pkg: "pkg/provider/xml", Name: "DecodeAttributeQuery"},
	{Pkg: "pkg/provider", Name: "hostFromForwarded"},
	{Pkg: "pkg/provider", Name: "issuerFromForwardedOrHost", Part: "validate"},
	{Pkg: "pkg/provider", Name: "issuerFromForwardedOrHost", Part: "derive"},
	{Pkg: "pkg/provider", Name: "StaticIssuer", Part: "validate"},
	{Pkg: "pkg/provider", Name: "StaticIssuer", Part: "derive"},
}

// standaloneOnly: translated for theorems of their own; callers keep consulting the (legacy) oracle of the same name, so
// that the definitions and proofs about the callers stay as they are (the link is a hypothesis of the theorems that
// combine them: the oracle's answers are the generated function's)
var standaloneOnly = map[string]bool{"pkg/provider/serviceprovider.ServiceProvider.ValidateRedirectSignature": true,
	"pkg/provider/xml.DecodeAuthNRequest": true, "pkg/provider/xml.DecodeLogoutRequest": true,
	"pkg/provider.IdentityProviderConfig.getMetadata": true, "pkg/provider.IdentityProvider.GetEntityID": true, "pkg/provider.IdentityProvider.GetMetadata": true,
	"pkg/provider.createRedirectSignature": true, "pkg/provider.IdentityProvider.GetServiceProvider": true, "pkg/provider.createPostSignature": true,
	"pkg/provider/xml.DecodeAttributeQuery": true,
	"pkg/provider/serviceprovider.getSigningCertsFromMetadata": true, "pkg/provider/serviceprovider.NewServiceProvider": true}

// extraFields are struct fields the hand-written handler models read although no translated function does.
var extraFields = map[string][]string{
	"pkg/provider/xml/samlp.AuthnRequestType":               {"ProtocolBinding", "Signature", "AssertionConsumerServiceURL"},
	"pkg/provider/xml/md.SPSSODescriptorType":               {"AssertionConsumerService", "SingleLogoutService"},
	"pkg/provider/serviceprovider.ServiceProvider":          {"ID"},
	"pkg/provider/xml/samlp.LogoutRequestType":              {"Id", "IssueInstant", "NotOnOrAfter", "Issuer", "NameID"},
	"pkg/provider/xml/samlp.AttributeQueryType":             {"Id", "Issuer", "Signature", "Subject", "Attribute"},
	"pkg/provider/xml/saml.SubjectType":                     {"NameID"},
	"pkg/provider/xml/md.IDPSSODescriptorType":              {"SingleLogoutService"},
	"pkg/provider/xml/md.AttributeAuthorityDescriptorType":  {"AttributeService"},
}

type world struct {
	pkgs    map[string]*packages.Package // by path below module
	funcs   map[string]*fn               // by key
	byObj   map[types.Object]*fn
	structs map[string]*structInfo // lean name -> info
	order   []string               // struct emission order
	oracles map[string]*oracle
	oraOrd  []string
	pool    map[string]bool // string literals seen
	effs    map[string][]string // effect constructors (Gen.Eff): name -> Lean argument types
	effOrd  []string
	notes   []string
}

type structInfo struct {
	lean   string
	named  *types.Named
	fields []string // used fields, Go names, in declaration order (filled at emission)
	used   map[string]bool
}

// legacyOracles: fields of Gen.Ora that the existing property files spell out in their Ora literals
var legacyOracles = map[string]bool{"now": true, "timeParse": true, "m_ValidateRedirectSignature": true, "m_ValidatePostSignature": true, "urlParse": true, "inflate": true, "m_GetResponseSigningKey": true}

type oracle struct {
	name string
	typ  string // lean type
	doc  string
	dflt string // optional default value of the Ora field (keeps hand-written Ora literals valid when an oracle is added)
}

type fn struct {
	spec     FuncSpec
	decl     *ast.FuncDecl
	pkg      *packages.Package
	obj      types.Object
	body     *ast.BlockStmt // effective body (inner closure body for closure-returning functions)
	inner    *ast.FuncLit   // non-nil for closure-returning functions
	params   []*param
	resTypes []types.Type
	lean     string
	failed   string
	out      string // emitted lean text
	usesOra  bool
	// inout: pointer parameters the body assigns through (or hands to a callee that does); their final values are
	// returned after the Go results and written back by the caller
	inout []*param
	// hasWB: a second definition <lean>_wb exists (func(error) parameters as extra results)
	hasWB bool
	// one level of a closure-returning function (FuncSpec.Part)
	partValidate, partDerive bool
}

type param struct {
	obj    types.Object
	name   string
	kind   string // "value", "getter", "ignored"
	typ    types.Type
	leanTy string
}

func main() {
	repo := flag.String("repo", "/repo", "repository root")
	defer func() { _ = repo }()
	out := flag.String("out", "", "output directory for Generated/*.lean")
	meta := flag.String("meta", "", "output json with signatures/field slices/pool")
	shim := flag.String("shim", "", "output go export shim")
	flag.Parse()
	repoRoot = *repo
	cfg := &packages.Config{Mode: packages.NeedName | packages.NeedFiles | packages.NeedSyntax | packages.NeedTypes | packages.NeedTypesInfo | packages.NeedImports | packages.NeedDeps, Dir: *repo}
	pkgs, err := packages.Load(cfg, "./pkg/...")
	if err != nil {
		fatal("load: %v", err)
	}
	w := &world{pkgs: map[string]*packages.Package{}, funcs: map[string]*fn{}, byObj: map[types.Object]*fn{},
		structs: map[string]*structInfo{}, oracles: map[string]*oracle{}, pool: map[string]bool{}, effs: map[string][]string{}}
	for _, p := range pkgs {
		for _, e := range p.Errors {
			fatal("package %s: %v", p.PkgPath, e)
		}
		w.pkgs[strings.TrimPrefix(p.PkgPath, modPath)] = p
	}
	w.collect()
	w.useExtraFields()
	for _, spec := range whitelist {
		f := w.funcs[spec.key()]
		if f == nil || f.failed != "" {
			continue
		}
		w.translate(f)
	}
	if *out != "" {
		must(os.MkdirAll(*out, 0o755))
		writeIfChanged(filepath.Join(*out, "Funcs.lean"), w.emitLean())
		writeIfChanged(filepath.Join(*out, "Facts.lean"), w.emitFacts())
		writeIfChanged(filepath.Join(*out, "FnDriver.lean"), w.emitDriver())
		writeIfChanged(filepath.Join(*out, "Schema.lean"), w.emitSchema())
		ck, ckFailed := w.emitChecker()
		writeIfChanged(filepath.Join(*out, "Checker.lean"), ck)
		if ckFailed != "" {
			w.notes = append(w.notes, "untranslated checker.go: "+ckFailed)
		}
	}
	if *meta != "" {
		writeIfChanged(*meta, w.emitMeta())
	}
	if *shim != "" {
		writeIfChanged(*shim, w.emitShim())
	}
	for _, n := range w.notes {
		fmt.Fprintln(os.Stderr, "note:", n)
	}
}

func fatal(f string, a ...interface{}) {
	fmt.Fprintf(os.Stderr, "go2lean: "+f+"\n", a...)
	os.Exit(2)
}
func must(err error) {
	if err != nil {
		fatal("%v", err)
	}
}

func writeIfChanged(path, content string) {
	old, err := os.ReadFile(path)
	if err == nil && string(old) == content {
		return
	}
	must(os.MkdirAll(filepath.Dir(path), 0o755))
	must(os.WriteFile(path, []byte(content), 0o644))
}

func (w *world) useExtraFields() {
	for full, fields := range extraFields {
		i := strings.LastIndex(full, ".")
		p := w.pkgs[full[:i]]
		if p == nil {
			continue
		}
		obj := p.Types.Scope().Lookup(full[i+1:])
		if obj == nil {
			continue
		}
		n, ok := obj.Type().(*types.Named)
		if !ok {
			continue
		}
		st, ok := n.Underlying().(*types.Struct)
		if !ok {
			continue
		}
		for _, f := range fields {
			for j := 0; j < st.NumFields(); j++ {
				if st.Field(j).Name() == f {
					w.useField(n, f)
				}
			}
		}
	}
}

// collect finds the declarations of the whitelist.
func (w *world) collect() {
	for _, spec := range whitelist {
		f := &fn{spec: spec, lean: spec.lean()}
		w.funcs[spec.key()] = f
		p := w.pkgs[spec.Pkg]
		if p == nil {
			f.failed = "package not found"
			continue
		}
		f.pkg = p
		for _, file := range p.Syntax {
			for _, d := range file.Decls {
				fd, ok := d.(*ast.FuncDecl)
				if !ok || fd.Name.Name != spec.Name || fd.Body == nil {
					continue
				}
				recv := ""
				if fd.Recv != nil && len(fd.Recv.List) == 1 {
					t := fd.Recv.List[0].Type
					if st, ok := t.(*ast.StarExpr); ok {
						t = st.X
					}
					if id, ok := t.(*ast.Ident); ok {
						recv = id.Name
					}
				}
				if recv != spec.Recv {
					continue
				}
				f.decl = fd
			}
		}
		if f.decl == nil {
			f.failed = "declaration not found"
			continue
		}
		f.obj = p.TypesInfo.Defs[f.decl.Name]
		if spec.Part == "" {
			w.byObj[f.obj] = f
		}
		w.prepare(f)
	}
}

// prepare classifies parameters and finds the effective body.
func (w *world) prepare(f *fn) {
	defer func() {
		if r := recover(); r != nil {
			f.failed = fmt.Sprint(r)
		}
	}()
	info := f.pkg.TypesInfo
	sig := f.obj.Type().(*types.Signature)
	addParam := func(v *types.Var) {
		p := &param{obj: v, name: v.Name(), typ: v.Type()}
		if s, ok := v.Type().Underlying().(*types.Signature); ok {
			if s.Params().Len() == 0 && s.Results().Len() == 1 {
				p.kind = "getter"
				p.typ = s.Results().At(0).Type()
			} else if s.Params().Len() == 1 && s.Results().Len() == 0 && isErrorType(s.Params().At(0).Type()) {
				p.kind = "setter" // func(error): a callback that stores an error in a variable of the caller
			} else {
				p.kind = "ignored"
			}
		} else if isIgnoredType(v.Type()) {
			p.kind = "ignored"
		} else {
			p.kind = "value"
		}
		if p.kind != "ignored" && p.kind != "setter" {
			p.leanTy = w.leanType(p.typ)
		}
		f.params = append(f.params, p)
	}
	if sig.Recv() != nil {
		addParam(sig.Recv())
	}
	for i := 0; i < sig.Params().Len(); i++ {
		addParam(sig.Params().At(i))
	}
	f.body = f.decl.Body
	res := sig.Results()
	if f.spec.Part != "" {
		// level 1: the function returns a closure literal
		lit := func(body *ast.BlockStmt) *ast.FuncLit {
			if len(body.List) == 0 {
				panic("part: empty body")
			}
			r, ok := body.List[len(body.List)-1].(*ast.ReturnStmt)
			if !ok || len(r.Results) == 0 {
				panic("part: body does not end in a return")
			}
			fl, ok := r.Results[0].(*ast.FuncLit)
			if !ok {
				panic("part: no closure literal returned")
			}
			return fl
		}
		if len(f.decl.Body.List) != 1 {
			panic("part: the function does more than returning a closure")
		}
		l1 := lit(f.decl.Body)
		for _, fld := range l1.Type.Params.List {
			for _, n := range fld.Names {
				addParam(info.Defs[n].(*types.Var))
			}
		}
		switch f.spec.Part {
		case "validate":
			f.body = l1.Body
			f.partValidate = true
			f.resTypes = []types.Type{types.Universe.Lookup("error").Type()}
			return
		case "derive":
			l2 := lit(l1.Body)
			for _, fld := range l2.Type.Params.List {
				for _, n := range fld.Names {
					addParam(info.Defs[n].(*types.Var))
				}
			}
			f.body = l2.Body
			f.partDerive = true
			rs := info.TypeOf(l2).(*types.Signature).Results()
			for i := 0; i < rs.Len(); i++ {
				f.resTypes = append(f.resTypes, rs.At(i).Type())
			}
			return
		}
		panic("unknown part " + f.spec.Part)
	}
	// closure-returning function: func f(...) func() R { return func() R { ... } }
	if res.Len() == 1 {
		if rs, ok := res.At(0).Type().Underlying().(*types.Signature); ok && rs.Params().Len() == 0 {
			if len(f.decl.Body.List) == 1 {
				if r, ok := f.decl.Body.List[0].(*ast.ReturnStmt); ok && len(r.Results) == 1 {
					if fl, ok := r.Results[0].(*ast.FuncLit); ok {
						f.inner = fl
						f.body = fl.Body
						res = rs.Results()
					}
				}
			}
			if f.inner == nil {
				panic("closure-returning function with unsupported shape")
			}
		}
	}
	for i := 0; i < res.Len(); i++ {
		f.resTypes = append(f.resTypes, res.At(i).Type())
	}
	_ = info
}

// isByteHolder: library objects that are, for the model, the bytes they hold (a buffer written to, a decoder's input)
func isByteHolder(t types.Type) bool {
	s := t.String()
	return s == "*bytes.Buffer" || s == "*encoding/xml.Decoder"
}

func isIgnoredType(t types.Type) bool {
	s := t.String()
	return s == "context.Context" || s == "net/http.ResponseWriter" || s == "*net/http.Request"
}

// ---------------------------------------------------------------- types

func (w *world) leanType(t types.Type) string {
	t = types.Unalias(t) // `any`
	switch tt := t.(type) {
	case *types.Basic:
		switch {
		case tt.Info()&types.IsString != 0:
			return "String"
		case tt.Info()&types.IsBoolean != 0:
			return "Bool"
		case tt.Info()&types.IsInteger != 0:
			return "Int"
		}
	case *types.Pointer:
		if isByteHolder(tt) {
			return "Lib.Bytes" // a local buffer is the bytes written to it so far
		}
		return "(Option " + w.leanType(tt.Elem()) + ")"
	case *types.Slice:
		if b, ok := tt.Elem().(*types.Basic); ok && b.Kind() == types.Byte {
			return "Lib.Bytes"
		}
		return "(List " + w.leanType(tt.Elem()) + ")"
	case *types.Map:
		v := tt.Elem()
		if p, ok := v.(*types.Pointer); ok {
			v = p.Elem()
		}
		return "(List (" + w.leanType(tt.Key()) + " × " + w.leanType(v) + "))"
	case *types.Named:
		if tt.Obj().Pkg() == nil {
			if tt.Obj().Name() == "error" {
				return "Err"
			}
			panic("unsupported universe type " + tt.Obj().Name())
		}
		full := tt.Obj().Pkg().Path() + "." + tt.Obj().Name()
		switch full {
		case "time.Time", "time.Duration":
			return "Int"
		case "io.ReadCloser", "io.Reader":
			return "Lib.Stream"
		case "net/url.URL":
			return "UrlRec"
		case "crypto/rsa.PrivateKey":
			return "KeyRec"
		}
		if tt.Obj().Name() == "error" {
			return "Err"
		}
		switch u := tt.Underlying().(type) {
		case *types.Basic:
			return w.leanType(u)
		case *types.Struct:
			return w.structName(tt)
		case *types.Interface:
			if tt.Obj().Name() == "error" {
				return "Err"
			}
			return "Unit"
		}
	case *types.Interface:
		if tt.NumMethods() == 0 {
			return "(Option Unit)" // interface{} holding some value or nil (only its nil-ness is modelled)
		}
		return "Unit"
	}
	if t.String() == "error" {
		return "Err"
	}
	panic("unsupported type " + t.String())
}

func (w *world) structName(n *types.Named) string {
	pkg := n.Obj().Pkg().Name()
	name := pkg + "_" + n.Obj().Name()
	if _, ok := w.structs[name]; !ok {
		w.structs[name] = &structInfo{lean: name, named: n, used: map[string]bool{}}
	}
	return name
}

func (w *world) useField(n *types.Named, field string) {
	name := w.structName(n)
	w.structs[name].used[field] = true
}

func namedStruct(t types.Type) *types.Named {
	if p, ok := t.(*types.Pointer); ok {
		t = p.Elem()
	}
	if n, ok := t.(*types.Named); ok {
		if _, ok := n.Underlying().(*types.Struct); ok {
			return n
		}
	}
	return nil
}

func isPointer(t types.Type) bool {
	_, ok := t.(*types.Pointer)
	return ok
}

func isErrorType(t types.Type) bool { return t.String() == "error" }

// ---------------------------------------------------------------- translation

type tctx struct {
	w       *world
	f       *fn
	info    *types.Info
	locals  map[types.Object]string // frame field names
	fields  []frameField
	bound   map[types.Object]string // lambda-bound range variables
	getters map[types.Object]bool
	ignored map[types.Object]bool
	retTy   string
	nret    int
	// newIDSites counts the NewID() call sites translated so far in this function
	newIDSites int
	// hasEff: the function performs observable effects (http.Error, sendBack…): the frame carries their trace `eff_`,
	// which is returned after the results and in-out values
	hasEff bool
	writeSites int
	// wbOK: the call being translated sits in a statement position that writes in-out values back
	wbOK bool
	// chain handlers: variables of type checker.Checker, the registered steps (Lean terms), the closures emitted as
	// definitions over the handler frame, the closure being translated, the statements of the function's top level
	// setter mode: the function is translated a second time as <name>_wb, whose result carries, after the Go results,
	// the last value handed to each func(error) parameter (none: never called); the caller writes it back
	setterMode bool
	setters    map[types.Object]string
	effDone  map[*ast.AssignStmt]bool
	chk      map[types.Object]bool
	steps    []string
	cloDefs  []string
	clo      *cloCtx
	topLevel map[ast.Stmt]bool
}

// cloCtx: the closure literal whose body is being translated (its `return` hands back the value and the frame)
type cloCtx struct {
	res []types.Type
}

type frameField struct {
	name, ty, dflt string
}

type val struct {
	e string   // lean expression (total)
	g []string // panic guards (lean Bool expressions); any true => panic
}

func orGuards(g []string) string {
	if len(g) == 0 {
		return ""
	}
	return strings.Join(g, " || ")
}

var leanReserved = map[string]bool{"end": true, "from": true, "at": true, "in": true, "then": true, "else": true, "if": true,
	"do": true, "fun": true, "let": true, "have": true, "show": true, "match": true, "with": true, "where": true, "open": true,
	"instance": true, "def": true, "theorem": true, "structure": true, "inductive": true, "class": true, "namespace": true,
	"section": true, "variable": true, "universe": true, "import": true, "export": true, "private": true, "protected": true,
	"mutual": true, "deriving": true, "extends": true, "for": true, "return": true, "try": true, "catch": true, "finally": true,
	"unless": true, "by": true, "using": true, "calc": true, "Type": true, "Prop": true, "Sort": true, "s": true, "o": true,
	"sig": true, "prefix": true, "infix": true, "notation": true, "macro": true, "syntax": true, "local": true, "attribute": true,
	"set_option": true, "abbrev": true, "example": true, "axiom": true, "opaque": true, "partial": true, "unsafe": true,
	"noncomputable": true, "nonrec": true, "omit": true, "include": true, "at_": true, "this": true, "default": true, "some": true, "none": true}

func sanitize(n string) string {
	if leanReserved[n] {
		return n + "'"
	}
	return n
}

func (c *tctx) newLocal(obj types.Object, ty types.Type) string {
	if n, ok := c.locals[obj]; ok {
		return n
	}
	base := sanitize(obj.Name())
	name := base
	for i := 2; ; i++ {
		clash := false
		for _, f := range c.fields {
			if f.name == name {
				clash = true
			}
		}
		if !clash {
			break
		}
		name = fmt.Sprintf("%s_%d", base, i)
	}
	lt := c.w.leanType(ty)
	c.locals[obj] = name
	c.fields = append(c.fields, frameField{name, lt, "default"})
	return name
}

func (w *world) translate(f *fn) {
	w.translateMode(f, false)
	hasSetter := false
	for _, p := range f.params {
		if p.kind == "setter" {
			hasSetter = true
		}
	}
	if hasSetter && f.failed == "" {
		plain := f.out
		w.translateMode(f, true)
		if f.failed == "" {
			f.out = plain + "\n" + f.out
			f.hasWB = true
		} else {
			w.notes = append(w.notes, "no _wb variant of "+f.lean+": "+f.failed)
			f.failed = ""
			f.out = plain
		}
	}
}

func (w *world) translateMode(f *fn, setterMode bool) {
	defer func() {
		if r := recover(); r != nil {
			f.failed = fmt.Sprint(r)
			f.out = ""
			if os.Getenv("GO2LEAN_DEBUG") != "" {
				panic(r)
			}
		}
	}()
	c := &tctx{w: w, f: f, info: f.pkg.TypesInfo, locals: map[types.Object]string{}, bound: map[types.Object]string{},
		getters: map[types.Object]bool{}, ignored: map[types.Object]bool{}, setterMode: setterMode, setters: map[types.Object]string{}}
	f.inout = nil
	leanName := f.lean
	if setterMode {
		leanName = f.lean + "_wb"
	}
	var sigParams []string
	var initFields []string
	for _, p := range f.params {
		switch p.kind {
		case "ignored":
			c.ignored[p.obj] = true
			continue
		case "setter":
			if !setterMode {
				c.ignored[p.obj] = true
			} else {
				c.setters[p.obj] = "set_" + sanitize(p.name)
			}
			continue
		case "getter":
			c.getters[p.obj] = true
		}
		if p.name == "_" || p.name == "" {
			continue
		}
		n := sanitize(p.name)
		c.locals[p.obj] = n
		c.fields = append(c.fields, frameField{n, p.leanTy, ""})
		sigParams = append(sigParams, fmt.Sprintf("(%s : %s)", n, p.leanTy))
		initFields = append(initFields, fmt.Sprintf("%s := %s", n, n))
	}
	// result type
	var rts []string
	for _, t := range f.resTypes {
		rts = append(rts, w.leanType(t))
	}
	c.nret = len(rts)
	w.scanInout(f)
	c.hasEff = f.body != nil && (hasEffects(f.body, f.pkg.TypesInfo) || usesChecker(f.body, f.pkg.TypesInfo))
	c.chk = map[types.Object]bool{}
	c.topLevel = map[ast.Stmt]bool{}
	if f.body != nil {
		for _, st := range f.body.List {
			c.topLevel[st] = true
		}
	}
	all := append([]string{}, rts...)
	for _, p := range f.inout {
		all = append(all, p.leanTy)
	}
	if setterMode {
		for _, p := range f.params {
			if p.kind == "setter" {
				all = append(all, "(Option Err)")
				c.fields = append(c.fields, frameField{c.setters[p.obj], "(Option Err)", "none"})
			}
		}
	}
	if c.hasEff {
		all = append(all, "(List Eff)")
		c.fields = append(c.fields, frameField{"eff_", "(List Eff)", "[]"})
	}
	switch len(all) {
	case 0:
		c.retTy = "Unit"
	case 1:
		c.retTy = all[0]
	default:
		c.retTy = strings.Join(all, " × ")
	}
	// named results become locals
	if f.inner == nil && f.spec.Part == "" {
		sig := f.obj.Type().(*types.Signature)
		for i := 0; i < sig.Results().Len(); i++ {
			r := sig.Results().At(i)
			if r.Name() != "" && r.Name() != "_" {
				c.newLocal(r, r.Type())
			}
		}
	}
	body := c.stmts(f.body.List, "  ")
	if (len(f.inout) > 0 || c.hasEff) && len(rts) == 0 {
		// falling off the end returns the final values of the in-out parameters
		body = fmt.Sprintf("  Ctl.seq\n  (\n%s)\n    fun s =>\n    .ret %s", body, c.retTuple(nil))
	}
	var sb strings.Builder
	fmt.Fprintf(&sb, "namespace %s\n", leanName)
	fmt.Fprintf(&sb, "structure Frame where\n")
	if len(c.fields) == 0 {
		fmt.Fprintf(&sb, "  unit_ : Unit := ()\n")
	}
	for _, fl := range c.fields {
		if fl.dflt == "" {
			fmt.Fprintf(&sb, "  %s : %s\n", fl.name, fl.ty)
		} else {
			fmt.Fprintf(&sb, "  %s : %s := %s\n", fl.name, fl.ty, fl.dflt)
		}
	}
	for _, d := range c.cloDefs {
		sb.WriteString("\n" + d)
	}
	if len(c.steps) > 0 {
		fmt.Fprintf(&sb, "\n/-- the validation chain: one `Go.Step` per `checkerInstance.WithXxx(…)` call, in registration order -/\ndef chain (o : Ora) : List (Go.Step Frame) := [\n  %s]\n", strings.Join(c.steps, ",\n  "))
	}
	fmt.Fprintf(&sb, "\ndef body (o : Ora) (s : Frame) : Ctl Frame (%s) :=\n%s\nend %s\n\n", c.retTy, body, leanName)
	dflt := "default"
	doc := "translated from " + f.spec.key()
	if setterMode {
		doc += "; after the Go results: the last value handed to each func(error) parameter (none: not called)"
	}
	fmt.Fprintf(&sb, "/-- %s -/\ndef %s (o : Ora) %s : Res (%s) :=\n  (%s.body o { %s }).toRes %s\n",
		doc, leanName, strings.Join(sigParams, " "), c.retTy, leanName, strings.Join(initFields, ", "), dflt)
	f.out = sb.String()
}

// retTuple: the value a `return` hands back - the Go results followed by the current values of the in-out parameters
func (c *tctx) retTuple(es []string) string {
	all := append([]string{}, es...)
	for _, p := range c.f.inout {
		all = append(all, "s."+c.locals[p.obj])
	}
	if c.setterMode {
		for _, p := range c.f.params {
			if p.kind == "setter" {
				all = append(all, "s."+c.setters[p.obj])
			}
		}
	}
	if c.hasEff {
		all = append(all, "s.eff_")
	}
	if len(all) == 0 {
		return "()"
	}
	return "(" + strings.Join(all, ", ") + ")"
}

func guardWrap(g []string, ind, body string) string {
	if len(g) == 0 {
		return body
	}
	return fmt.Sprintf("%sif %s then .panic else\n%s", ind, orGuards(g), body)
}

// stmts returns a Lean term of type Ctl Frame ρ with free variables `o` and `s`.
func (c *tctx) stmts(list []ast.Stmt, ind string) string {
	if len(list) == 0 {
		return ind + ".next s"
	}
	st := list[0]
	rest := list[1:]
	switch s := st.(type) {
	case *ast.ReturnStmt:
		var vs []val
		if c.clo != nil {
			switch len(s.Results) {
			case 0:
				return ind + ".ret ((), s)"
			case 1:
				if len(c.clo.res) != 1 {
					panic("closure return arity")
				}
				v := c.exprAs(s.Results[0], c.clo.res[0])
				return guardWrap(v.g, ind, fmt.Sprintf("%s.ret (%s, s)", ind, v.e))
			}
			panic("closure with more than one result")
		}
		if c.f.partValidate {
			if len(s.Results) != 2 {
				panic("validate part: return with other than two results")
			}
			v := c.exprAs(s.Results[1], c.f.resTypes[0])
			return guardWrap(v.g, ind, ind+".ret "+c.retTuple([]string{v.e}))
		}
		if len(s.Results) == 0 {
			// naked return with named results
			sig := c.f.obj.Type().(*types.Signature)
			var es []string
			for i := 0; i < sig.Results().Len(); i++ {
				es = append(es, "s."+c.locals[sig.Results().At(i)])
			}
			return ind + ".ret " + c.retTuple(es)
		}
		if len(s.Results) == 1 && c.nret > 1 {
			// return f(...) with tuple result
			v := c.expr(s.Results[0])
			if len(c.f.inout) > 0 || c.hasEff {
				if c.nret != 2 {
					panic("return of a call with more than two results from a function with in-out parameters")
				}
				return guardWrap(v.g, ind, fmt.Sprintf("%slet t_ := %s;\n%s.ret %s", ind, v.e, ind, c.retTuple([]string{"t_.1", "t_.2"})))
			}
			return guardWrap(v.g, ind, ind+".ret "+v.e)
		}
		var g []string
		var es []string
		for i, r := range s.Results {
			v := c.exprAs(r, c.f.resTypes[i])
			vs = append(vs, v)
			g = append(g, v.g...)
			es = append(es, v.e)
		}
		return guardWrap(g, ind, ind+".ret "+c.retTuple(es))
	case *ast.BranchStmt:
		switch s.Tok.String() {
		case "break":
			return ind + ".brk s"
		case "continue":
			return ind + ".cont s"
		}
		panic("unsupported branch " + s.Tok.String())
	case *ast.BlockStmt:
		return c.seq(c.stmts(s.List, ind+"  "), rest, ind)
	case *ast.ExprStmt:
		if c.skippableCall(s.X) {
			return c.stmts(rest, ind)
		}
		if c.chainRegistration(st, s.X) {
			return c.stmts(rest, ind)
		}
		if call, ok := s.X.(*ast.CallExpr); ok && len(call.Args) == 1 {
			if id, ok := call.Fun.(*ast.Ident); ok {
				if fld, ok := c.setters[c.info.Uses[id]]; ok {
					v := c.expr(call.Args[0])
					return guardWrap(v.g, ind, fmt.Sprintf("%slet s := { s with %s := some %s };\n%s", ind, fld, v.e, c.stmts(rest, ind)))
				}
			}
		}
		if c.hasEff {
			if v, ok := c.effectCall(s.X); ok {
				return guardWrap(v.g, ind, fmt.Sprintf("%slet s := { s with eff_ := s.eff_ ++ [%s] };\n%s", ind, v.e, c.stmts(rest, ind)))
			}
		}
		if v, nres, wb, ok := c.writeBackCall(s.X); ok {
			return c.assignWB(nil, nil, v, nres, wb, rest, ind)
		}
		panic("unsupported expression statement: " + c.src(s.X))
	case *ast.DeferStmt:
		return c.stmts(rest, ind)
	case *ast.DeclStmt:
		gd := s.Decl.(*ast.GenDecl)
		var lets []string
		var g []string
		for _, sp := range gd.Specs {
			vs := sp.(*ast.ValueSpec)
			for i, id := range vs.Names {
				obj := c.info.Defs[id]
				n := c.newLocal(obj, obj.Type())
				if i < len(vs.Values) {
					v := c.exprAs(vs.Values[i], obj.Type())
					g = append(g, v.g...)
					lets = append(lets, fmt.Sprintf("%slet s := { s with %s := %s };", ind, n, v.e))
				} else {
					lets = append(lets, fmt.Sprintf("%slet s := { s with %s := default };", ind, n))
				}
			}
		}
		return guardWrap(g, ind, strings.Join(lets, "\n")+"\n"+c.stmts(rest, ind))
	case *ast.AssignStmt:
		return c.assign(s, rest, ind)
	case *ast.IfStmt:
		if s.Init != nil {
			return c.stmts(append([]ast.Stmt{s.Init, &ast.IfStmt{Cond: s.Cond, Body: s.Body, Else: s.Else}}, rest...), ind)
		}
		if c.isCheckFailed(s.Cond) {
			if s.Else != nil || c.clo != nil {
				panic("unsupported use of CheckFailed")
			}
			thenB := c.stmts(s.Body.List, ind+"        ")
			ite := fmt.Sprintf("%s      (if failed_ then\n%s\n%s      else\n%s        .next s)", ind, thenB, ind, ind)
			return fmt.Sprintf("%smatch Go.runChain (chain o) s with\n%s| .panic => .panic\n%s| .ok (failed_, s) =>\n%s", ind, ind, ind, c.seqText(ite, rest, ind+"    "))
		}
		cond := c.expr(s.Cond)
		thenB := c.stmts(s.Body.List, ind+"    ")
		elseB := ind + "    .next s"
		if s.Else != nil {
			switch e := s.Else.(type) {
			case *ast.BlockStmt:
				elseB = c.stmts(e.List, ind+"    ")
			case *ast.IfStmt:
				elseB = c.stmts([]ast.Stmt{e}, ind+"    ")
			}
		}
		ite := fmt.Sprintf("%s  (if %s then\n%s\n%s  else\n%s)", ind, cond.e, thenB, ind, elseB)
		return guardWrap(cond.g, ind, c.seqText(ite, rest, ind))
	case *ast.SwitchStmt:
		if s.Init != nil || s.Tag == nil {
			panic("unsupported switch form")
		}
		tag := c.expr(s.Tag)
		// build if-chain
		var build func(i int) string
		clauses := s.Body.List
		var dflt *ast.CaseClause
		var cases []*ast.CaseClause
		for _, cl := range clauses {
			cc := cl.(*ast.CaseClause)
			if cc.List == nil {
				dflt = cc
			} else {
				cases = append(cases, cc)
			}
		}
		build = func(i int) string {
			in := ind + strings.Repeat("  ", i+1)
			if i == len(cases) {
				if dflt != nil {
					return c.stmts(dflt.Body, in)
				}
				return in + ".next s"
			}
			var conds []string
			for _, e := range cases[i].List {
				v := c.exprAs(e, c.info.TypeOf(s.Tag))
				if len(v.g) > 0 {
					panic("guarded case expression")
				}
				conds = append(conds, fmt.Sprintf("%s == %s", tag.e, v.e))
			}
			return fmt.Sprintf("%sif %s then\n%s\n%selse\n%s", in, strings.Join(conds, " || "), c.stmts(cases[i].Body, in+"  "), in, build(i+1))
		}
		return guardWrap(tag.g, ind, c.seqText(ind+"  ("+strings.TrimLeft(build(0), " ")+")", rest, ind))
	case *ast.RangeStmt:
		if out, ok := c.blankingLoop(s); ok {
			return out + "\n" + c.stmts(rest, ind)
		}
		xs := c.expr(s.X)
		elemTy := ""
		var elemT types.Type
		isMap := false
		switch t := c.info.TypeOf(s.X).Underlying().(type) {
		case *types.Slice:
			elemT = t.Elem()
		case *types.Map:
			isMap = true
			elemT = t.Elem()
		default:
			panic("range over unsupported type")
		}
		_ = elemTy
		bind := "x_"
		var pre string
		if isMap {
			// key, value
			kn, vn := "_k", "_v"
			if id, ok := s.Key.(*ast.Ident); ok && id.Name != "_" {
				kn = "k_" + sanitize(id.Name)
				c.bound[c.info.Defs[id]] = kn
			}
			if s.Value != nil {
				if id, ok := s.Value.(*ast.Ident); ok && id.Name != "_" {
					vn = "v_" + sanitize(id.Name)
					c.bound[c.info.Defs[id]] = vn
					if isPointer(elemT) {
						c.boundPtr(c.info.Defs[id])
					}
				}
			}
			bind = fmt.Sprintf("(%s, %s)", kn, vn)
			pre = ""
		} else {
			if s.Key != nil {
				if id, ok := s.Key.(*ast.Ident); !ok || id.Name != "_" {
					panic("range with index variable")
				}
			}
			if s.Value != nil {
				if id, ok := s.Value.(*ast.Ident); ok && id.Name != "_" {
					bind = "x_" + sanitize(id.Name)
					obj := c.info.Defs[id]
					if obj == nil {
						panic("range assigns to existing variable")
					}
					c.bound[obj] = bind
				}
			}
		}
		body := c.stmts(s.Body.List, ind+"    ")
		loop := fmt.Sprintf("%s  (goFor %s s fun %s s =>\n%s%s)", ind, xs.e, bind, pre, body)
		return guardWrap(xs.g, ind, c.seqText(loop, rest, ind))
	}
	panic(fmt.Sprintf("unsupported statement %T", st))
}

func isCheckerType(t types.Type) bool {
	if t == nil {
		return false
	}
	if p, ok := t.(*types.Pointer); ok {
		t = p.Elem()
	}
	n, ok := t.(*types.Named)
	return ok && n.Obj().Pkg() != nil && strings.HasSuffix(n.Obj().Pkg().Path(), "pkg/provider/checker") && n.Obj().Name() == "Checker"
}

// usesChecker: does the body declare a checker.Checker (a chain handler)
func usesChecker(body *ast.BlockStmt, info *types.Info) bool {
	found := false
	ast.Inspect(body, func(n ast.Node) bool {
		if cl, ok := n.(*ast.CompositeLit); ok && isCheckerType(info.TypeOf(cl)) {
			found = true
		}
		return true
	})
	return found
}

func (c *tctx) checkerMethod(e ast.Expr) (*ast.CallExpr, string, bool) {
	x, ok := e.(*ast.CallExpr)
	if !ok {
		return nil, "", false
	}
	sel, ok := x.Fun.(*ast.SelectorExpr)
	if !ok {
		return nil, "", false
	}
	id, ok := sel.X.(*ast.Ident)
	if !ok || !c.chk[c.info.Uses[id]] {
		return nil, "", false
	}
	return x, sel.Sel.Name, true
}

func (c *tctx) isCheckFailed(e ast.Expr) bool {
	_, name, ok := c.checkerMethod(e)
	return ok && name == "CheckFailed"
}

// chainRegistration handles `checkerInstance.WithXxx(args…)`: the step is appended to the chain definition; the
// statement itself has no effect on the frame (registration does not run a closure).  The Lean side of a step is the
// function of Model.Checker with the method's name (first letter lowered); value names (strings) are dropped there.
func (c *tctx) chainRegistration(st ast.Stmt, e ast.Expr) bool {
	x, name, ok := c.checkerMethod(e)
	if !ok || !strings.HasPrefix(name, "With") {
		return false
	}
	if !c.topLevel[st] || c.clo != nil {
		panic("chain step registered conditionally: " + c.src(e))
	}
	sel := c.info.Selections[x.Fun.(*ast.SelectorExpr)]
	sig := sel.Obj().Type().(*types.Signature)
	var args []string
	for i := 0; i < sig.Params().Len(); i++ {
		pt := sig.Params().At(i).Type()
		a := x.Args[i]
		switch t := pt.Underlying().(type) {
		case *types.Signature:
			if t.Params().Len() != 0 || t.Results().Len() > 1 {
				panic("unsupported closure type in chain step")
			}
			var rt types.Type
			if t.Results().Len() == 1 {
				rt = t.Results().At(0).Type()
			}
			n := c.closure(a, rt)
			args = append(args, fmt.Sprintf("(%s o)", n))
		case *types.Basic:
			if t.Info()&types.IsString != 0 {
				continue // value name: only logged
			}
			v, isConst := c.constVal(a)
			if !isConst {
				panic("non-constant chain step argument " + c.src(a))
			}
			args = append(args, v)
		default:
			panic("unsupported chain step argument " + c.src(a))
		}
	}
	lname := strings.ToLower(name[:1]) + name[1:]
	c.steps = append(c.steps, fmt.Sprintf(".%s %s", lname, strings.Join(args, " ")))
	return true
}

// closure translates a closure over the handler frame - a literal `func() T { … }` or the value of a translated
// closure-returning function applied to getter literals - into a definition `cloK (o : Ora) : Go.Clo Frame T` and
// returns its name.
func (c *tctx) closure(e ast.Expr, rt types.Type) string {
	k := len(c.cloDefs)
	name := fmt.Sprintf("clo%d", k)
	c.cloDefs = append(c.cloDefs, "") // reserve the slot (closures may nest)
	ty := "Unit"
	if rt != nil {
		ty = c.w.leanType(rt)
	}
	var body string
	switch x := e.(type) {
	case *ast.FuncLit:
		old := c.clo
		c.clo = &cloCtx{}
		if rt != nil {
			c.clo.res = []types.Type{rt}
		}
		body = c.stmts(x.Body.List, "    ")
		c.clo = old
		if rt == nil {
			body = fmt.Sprintf("    Ctl.seq\n    (\n%s)\n      fun s =>\n      .ret ((), s)", body)
		}
		body = "  Go.Ctl.toClo (\n" + body + ")"
	case *ast.CallExpr:
		callee := c.calleeFn(x.Fun)
		if callee == nil || callee.inner == nil {
			panic("unsupported closure value " + c.src(e))
		}
		// func(error) arguments: `func(e error) { v = e }` stores into the local v of the handler
		var setTargets []string
		ai := 0
		for _, p := range callee.params {
			if sig := callee.obj.Type().(*types.Signature); sig.Recv() != nil && p.obj == sig.Recv() {
				continue
			}
			if ai >= len(x.Args) {
				break
			}
			a := x.Args[ai]
			ai++
			if p.kind != "setter" {
				continue
			}
			fl, ok := a.(*ast.FuncLit)
			if !ok || len(fl.Body.List) != 1 {
				panic("unsupported func(error) argument " + c.src(a))
			}
			as, ok := fl.Body.List[0].(*ast.AssignStmt)
			if !ok || as.Tok.String() != "=" || len(as.Lhs) != 1 || len(as.Rhs) != 1 {
				panic("unsupported func(error) argument " + c.src(a))
			}
			lid, lok := as.Lhs[0].(*ast.Ident)
			rid, rok := as.Rhs[0].(*ast.Ident)
			if !lok || !rok || c.info.Uses[rid] != c.info.Defs[fl.Type.Params.List[0].Names[0]] {
				panic("unsupported func(error) argument " + c.src(a))
			}
			n, has := c.locals[c.info.Uses[lid]]
			if !has {
				panic("func(error) argument stores into a non-local")
			}
			setTargets = append(setTargets, n)
		}
		v := c.callTranslated(callee, x)
		if len(setTargets) == 0 {
			body = fmt.Sprintf("  .ok (%s, s)", v.e)
		} else {
			if !callee.hasWB {
				panic("callee " + callee.lean + " has no _wb variant")
			}
			// the _wb variant: same arguments, results followed by the stored errors
			wbCall := strings.Replace(v.e, "("+callee.lean+" o", "("+callee.lean+"_wb o", 1)
			for i := range v.g {
				v.g[i] = strings.Replace(v.g[i], "("+callee.lean+" o", "("+callee.lean+"_wb o", 1)
			}
			k := len(callee.resTypes) + len(setTargets)
			body = fmt.Sprintf("  let t_ := %s;\n", wbCall)
			for j, n := range setTargets {
				body += fmt.Sprintf("  let s := (match t_%s with | some e_ => { s with %s := e_ } | none => s);\n", tupleProj(len(callee.resTypes)+j, k), n)
			}
			res := "t_" + tupleProj(0, k)
			if len(callee.resTypes) != 1 {
				panic("closure-returning callee with func(error) parameters and other than one result")
			}
			body += fmt.Sprintf("  .ok (%s, s)", res)
		}
		if len(v.g) > 0 {
			body = fmt.Sprintf("  if %s then .panic else\n%s", orGuards(v.g), body)
		}
	default:
		panic("unsupported closure value " + c.src(e))
	}
	c.cloDefs[k] = fmt.Sprintf("/-- %s -/\ndef %s (o : Ora) : Go.Clo Frame (%s) := fun s =>\n%s\n", strings.ReplaceAll(strings.ReplaceAll(firstLine(c.src(e)), "-/", "- /"), "/-", "/ -"), name, ty, body)
	return name
}

func firstLine(s string) string {
	if i := strings.Index(s, "\n"); i >= 0 {
		return s[:i] + " …"
	}
	if len(s) > 160 {
		return s[:160] + " …"
	}
	return s
}

// blankingLoop recognises
//
//	for _, p := range xs { for i := range p.F { p.F[i] = e } }
//
// over a local slice `xs` of pointers, with a constant `e`: every element of every `F` is overwritten through the
// pointers the slice holds.  In the value model (a pointer is the value it points to, slices hold values) this is a
// map over `xs`; nothing else aliases the pointees here because `xs` is a local the function has just built.
func (c *tctx) blankingLoop(s *ast.RangeStmt) (string, bool) {
	if len(s.Body.List) != 1 {
		return "", false
	}
	inner, ok := s.Body.List[0].(*ast.RangeStmt)
	if !ok || inner.Value != nil || len(inner.Body.List) != 1 {
		return "", false
	}
	xsId, ok := s.X.(*ast.Ident)
	if !ok {
		return "", false
	}
	root, isLocal := c.locals[c.info.Uses[xsId]]
	sl, isSlice := c.info.TypeOf(s.X).Underlying().(*types.Slice)
	if !isLocal || !isSlice || !isPointer(sl.Elem()) {
		return "", false
	}
	pv, ok := s.Value.(*ast.Ident)
	iv, ok2 := inner.Key.(*ast.Ident)
	if !ok || !ok2 {
		return "", false
	}
	fsel, ok := inner.X.(*ast.SelectorExpr)
	if !ok || types.ExprString(fsel.X) != pv.Name {
		return "", false
	}
	as, ok := inner.Body.List[0].(*ast.AssignStmt)
	if !ok || as.Tok.String() != "=" || len(as.Lhs) != 1 || len(as.Rhs) != 1 {
		return "", false
	}
	if types.ExprString(as.Lhs[0]) != pv.Name+"."+fsel.Sel.Name+"["+iv.Name+"]" {
		return "", false
	}
	cv, isConst := c.constVal(as.Rhs[0])
	if !isConst {
		return "", false
	}
	ns := namedStruct(sl.Elem())
	if ns == nil {
		return "", false
	}
	c.w.useField(ns, fsel.Sel.Name)
	et := c.w.leanType(sl.Elem().(*types.Pointer).Elem())
	return fmt.Sprintf("  let s := { s with %s := List.map (fun (p_ : Option %s) => Option.map (fun (v_ : %s) => { v_ with %s := List.map (fun _ => %s) v_.%s }) p_) s.%s };", root, et, et, fsel.Sel.Name, cv, fsel.Sel.Name, root), true
}

var boundPtrs = map[types.Object]bool{}

func (c *tctx) boundPtr(o types.Object) { boundPtrs[o] = true }

func (c *tctx) seq(first string, rest []ast.Stmt, ind string) string {
	return c.seqText(first, rest, ind)
}

func (c *tctx) seqText(first string, rest []ast.Stmt, ind string) string {
	if len(rest) == 0 {
		return first
	}
	return fmt.Sprintf("%sCtl.seq\n%s\n%s  fun s =>\n%s", ind, first, ind, c.stmts(rest, ind+"  "))
}

func (c *tctx) skippableCall(e ast.Expr) bool {
	call, ok := e.(*ast.CallExpr)
	if !ok {
		return false
	}
	switch fun := call.Fun.(type) {
	case *ast.SelectorExpr:
		if id, ok := fun.X.(*ast.Ident); ok {
			if pn, ok := c.info.Uses[id].(*types.PkgName); ok {
				p := pn.Imported().Path()
				if p == "github.com/zitadel/logging" || p == "log" {
					return true
				}
			}
		}
	case *ast.Ident:
		if obj := c.info.Uses[fun]; obj != nil && c.ignored[obj] {
			return true
		}
	}
	return false
}




// effectMethods: methods of the library whose call is an observable effect of a handler (what is written to the client)
var effectMethods = map[string]bool{"sendBackResponse": true, "sendBackLogoutResponse": true}

// effectCall recognises `http.Error(w, msg, code)` and `x.sendBackResponse(r, w, m)`: returns the Eff constructor
// application, or ok = false
func (c *tctx) effectCall(e ast.Expr) (v val, ok bool) {
	x, isCall := e.(*ast.CallExpr)
	if !isCall {
		return val{}, false
	}
	sel, isSel := x.Fun.(*ast.SelectorExpr)
	if !isSel {
		return val{}, false
	}
	reg := func(name string, tys []string) {
		if _, has := c.w.effs[name]; !has {
			c.w.effs[name] = tys
			c.w.effOrd = append(c.w.effOrd, name)
		}
	}
	if id, isId := sel.X.(*ast.Ident); isId {
		if pn, isPkg := c.info.Uses[id].(*types.PkgName); isPkg {
			if pn.Imported().Path() == "net/http" && sel.Sel.Name == "Error" && len(x.Args) == 3 {
				m := c.expr(x.Args[1])
				code := c.expr(x.Args[2])
				reg("httpError", []string{"String", "Int"})
				return val{e: fmt.Sprintf("(Eff.httpError %s %s)", m.e, code.e), g: append(m.g, code.g...)}, true
			}
			if pn.Imported().Path() == "net/http" && sel.Sel.Name == "Redirect" && len(x.Args) == 4 {
				u := c.expr(x.Args[2])
				code := c.expr(x.Args[3])
				reg("httpRedirect", []string{"String", "Int"})
				return val{e: fmt.Sprintf("(Eff.httpRedirect %s %s)", u.e, code.e), g: append(u.g, code.g...)}, true
			}
			return val{}, false
		}
	}
	// w.Header().Set(name, value): a header of the reply
	if inner, isCall := sel.X.(*ast.CallExpr); isCall && sel.Sel.Name == "Set" && len(x.Args) == 2 {
		if isel, ok := inner.Fun.(*ast.SelectorExpr); ok && isel.Sel.Name == "Header" && c.info.TypeOf(isel.X) != nil && c.info.TypeOf(isel.X).String() == "net/http.ResponseWriter" {
			k := c.expr(x.Args[0])
			v := c.expr(x.Args[1])
			reg("setHeader", []string{"String", "String"})
			return val{e: fmt.Sprintf("(Eff.setHeader %s %s)", k.e, v.e), g: append(k.g, v.g...)}, true
		}
	}
	if sl := c.info.Selections[sel]; sl != nil && sl.Kind() == types.FieldVal {
		// a callback stored in a struct field (Response.ErrorFunc): its call is an effect named after the field
		if sig, ok := sl.Obj().Type().Underlying().(*types.Signature); ok && sig.Results().Len() == 0 {
			var es, tys, g []string
			for i, a := range x.Args {
				v := c.expr(a)
				if c.info.TypeOf(a).String() == "error" {
					v.e = "(" + v.e + ".getD \"\")"
					tys = append(tys, "String")
				} else {
					tys = append(tys, c.w.leanType(sig.Params().At(i).Type()))
				}
				es = append(es, v.e)
				g = append(g, v.g...)
			}
			name := "call" + sel.Sel.Name
			reg(name, tys)
			return val{e: fmt.Sprintf("(Eff.%s %s)", name, strings.Join(es, " ")), g: g}, true
		}
	}
	if effectMethods[sel.Sel.Name] {
		if s := c.info.Selections[sel]; s != nil && s.Kind() == types.MethodVal {
			recv := c.expr(sel.X)
			tys := []string{c.w.leanType(c.info.TypeOf(sel.X))}
			es := []string{recv.e}
			g := recv.g
			sig := s.Obj().Type().(*types.Signature)
			for i := 0; i < sig.Params().Len(); i++ {
				if isIgnoredType(sig.Params().At(i).Type()) {
					continue
				}
				a := c.exprAs(x.Args[i], sig.Params().At(i).Type())
				es = append(es, a.e)
				g = append(g, a.g...)
				tys = append(tys, c.w.leanType(sig.Params().At(i).Type()))
			}
			reg(sel.Sel.Name, tys)
			return val{e: fmt.Sprintf("(Eff.%s %s)", sel.Sel.Name, strings.Join(es, " ")), g: g}, true
		}
	}
	return val{}, false
}


// effectResultCall recognises calls that write to the client *and* return an error (`xml.Write(w, data)`,
// `template.Execute(w, data)`): the write is an effect, the error it returns an oracle indexed by the calling function and
// the call site within it
func (c *tctx) effectResultCall(e ast.Expr) (eff val, result string, ok bool) {
	x, isCall := e.(*ast.CallExpr)
	if !isCall || !c.hasEff {
		return val{}, "", false
	}
	sel, isSel := x.Fun.(*ast.SelectorExpr)
	if !isSel || len(x.Args) != 2 || !isIgnoredType(c.info.TypeOf(x.Args[0])) {
		return val{}, "", false
	}
	reg := func(name string, tys []string) {
		if _, has := c.w.effs[name]; !has {
			c.w.effs[name] = tys
			c.w.effOrd = append(c.w.effOrd, name)
		}
	}
	name := ""
	if id, isId := sel.X.(*ast.Ident); isId {
		if pn, isPkg := c.info.Uses[id].(*types.PkgName); isPkg && strings.HasSuffix(pn.Imported().Path(), "pkg/provider/xml") && sel.Sel.Name == "Write" {
			name = "xmlWrite"
		} else if isPkg && strings.HasSuffix(pn.Imported().Path(), "pkg/provider/xml") && sel.Sel.Name == "WriteXMLMarshalled" {
			name = "xmlWriteMarshalled"
		}
	}
	if name == "" {
		if t := c.info.TypeOf(sel.X); t != nil && t.String() == "*html/template.Template" && sel.Sel.Name == "Execute" {
			name = "templateExecute"
		}
	}
	if name == "" {
		return val{}, "", false
	}
	a := c.expr(x.Args[1])
	aty := c.w.leanType(c.info.TypeOf(x.Args[1]))
	if prev, has := c.w.effs[name]; has && (len(prev) != 1 || prev[0] != aty) {
		// the same kind of write with another payload type (the logout page's form): its own constructor
		if ns := namedStruct(c.info.TypeOf(x.Args[1])); ns != nil {
			name += "_" + ns.Obj().Name()
		} else {
			name += "_" + strings.Map(func(r rune) rune {
				if r == ' ' || r == '(' || r == ')' || r == '.' {
					return -1
				}
				return r
			}, aty)
		}
	}
	reg(name, []string{aty})
	o := c.oracle("writeErr", "String → Nat → Err", "the error a write to the client returns (xml.Write, template.Execute), by calling function and call site")
	k := c.writeSites
	c.writeSites++
	return val{e: fmt.Sprintf("(Eff.%s %s)", name, a.e), g: a.g}, fmt.Sprintf("(%s %s %d)", o, leanStr(c.f.lean), k), true
}

// hasEffects: does the body contain an effect call (syntactic pre-scan)
func hasEffects(body *ast.BlockStmt, info *types.Info) bool {
	found := false
	ast.Inspect(body, func(n ast.Node) bool {
		if es, ok := n.(*ast.ExprStmt); ok {
			if x, ok := es.X.(*ast.CallExpr); ok {
				if sel, ok := x.Fun.(*ast.SelectorExpr); ok {
					if effectMethods[sel.Sel.Name] {
						found = true
					}
					if id, ok := sel.X.(*ast.Ident); ok {
						if pn, ok := info.Uses[id].(*types.PkgName); ok && pn.Imported().Path() == "net/http" && (sel.Sel.Name == "Error" || sel.Sel.Name == "Redirect") {
							found = true
						}
					}
				}
			}
		}
		if x, ok := n.(*ast.CallExpr); ok {
			if sel, ok := x.Fun.(*ast.SelectorExpr); ok && len(x.Args) == 2 && (sel.Sel.Name == "Write" || sel.Sel.Name == "Execute" || sel.Sel.Name == "WriteXMLMarshalled") {
				if t := info.TypeOf(x.Args[0]); t != nil && isIgnoredType(t) {
					found = true
				}
			}
		}
		if _, ok := n.(*ast.FuncLit); ok {
			return false // effects inside closure literals (error callbacks) are not part of the straight-line trace
		}
		return true
	})
	return found
}

// storageEffects: storage methods whose call is part of what a handler does to the outside (recorded in the effect trace
// with its arguments; the answer is an oracle as for every interface method)
var storageEffects = map[string]bool{"CreateAuthRequest": true}

// outParamMethods: interface methods that fill the struct behind one of their pointer arguments (argument index among
// the non-context parameters).  The oracle returns the filled value after its Go results.
var outParamMethods = map[string]int{"SetUserinfoWithUserID": 1, "SetUserinfoWithLoginName": 0}

// funcOracles: untranslated package-level functions that may be called as oracles (typed by their Go signature)
var funcOracles = map[string]bool{"createRedirectSignature": true, "createPostSignature": true, "Marshal": true, "DeflateAndBase64": true, "DecodeLogoutRequest": true, "DecodeAuthNRequest": true, "DecodeAttributeQuery": true, "GetSigner": true, "Create": true, "ValidateRedirect": true, "IssuerFromContext": true, "ParseTlsKeyPair": true, "GetSigningContext": true, "CreateRedirect": true, "ParseMetadataXmlIntoStruct": true, "ParseCertificates": true}

// scanInout finds the pointer parameters of f that the body assigns through, directly or by passing them to a
// translated callee that does (callees are translated first: whitelist order).
func (w *world) scanInout(f *fn) {
	if f.body == nil {
		return
	}
	info := f.pkg.TypesInfo
	isParam := map[types.Object]*param{}
	for _, p := range f.params {
		if p.kind == "value" && isPointer(p.typ) && namedStruct(p.typ) != nil {
			isParam[p.obj] = p
		}
	}
	marked := map[*param]bool{}
	rootIdent := func(e ast.Expr) (*ast.Ident, int) {
		d := 0
		for {
			switch x := e.(type) {
			case *ast.SelectorExpr:
				e = x.X
				d++
				continue
			case *ast.IndexExpr:
				e = x.X
				d++
				continue
			case *ast.StarExpr:
				e = x.X
				d++
				continue
			case *ast.ParenExpr:
				e = x.X
				continue
			}
			break
		}
		id, _ := e.(*ast.Ident)
		return id, d
	}
	ast.Inspect(f.body, func(n ast.Node) bool {
		switch x := n.(type) {
		case *ast.AssignStmt:
			for _, l := range x.Lhs {
				if id, d := rootIdent(l); id != nil && d > 0 {
					if p := isParam[info.Uses[id]]; p != nil {
						marked[p] = true
					}
				}
			}
		case *ast.CallExpr:
			var callee *fn
			switch fun := x.Fun.(type) {
			case *ast.Ident:
				if o := info.Uses[fun]; o != nil {
					callee = w.byObj[o]
				}
			case *ast.SelectorExpr:
				if o := info.Uses[fun.Sel]; o != nil {
					callee = w.byObj[o]
				}
			}
			if callee != nil && len(callee.inout) > 0 {
				ai := 0
				for _, cp := range callee.params {
					if sig := callee.obj.Type().(*types.Signature); sig.Recv() != nil && cp.obj == sig.Recv() {
						continue
					}
					if ai >= len(x.Args) {
						break
					}
					a := x.Args[ai]
					ai++
					for _, io := range callee.inout {
						if io == cp {
							if id, ok := a.(*ast.Ident); ok {
								if p := isParam[info.Uses[id]]; p != nil {
									marked[p] = true
								}
							}
						}
					}
				}
			}
		}
		return true
	})
	for _, p := range f.params {
		if marked[p] {
			f.inout = append(f.inout, p)
		}
	}
}

// writeBackCall recognises a call whose value carries, after the Go results, the new values of local variables:
// a translated callee with in-out pointer parameters, or an interface method that fills an argument.
// It returns the tuple-valued expression, the number of Go results, and the frame fields to write back.
func (c *tctx) writeBackCall(e ast.Expr) (v val, nres int, wb []string, ok bool) {
	x, isCall := e.(*ast.CallExpr)
	if !isCall {
		return val{}, 0, nil, false
	}
	localOf := func(a ast.Expr) string {
		id, isId := a.(*ast.Ident)
		if !isId {
			panic("in-out argument is not a plain variable: " + c.src(a))
		}
		n, has := c.locals[c.info.Uses[id]]
		if !has {
			panic("in-out argument is not a local variable: " + id.Name)
		}
		return n
	}
	if callee := c.calleeFn(x.Fun); callee != nil && len(callee.inout) > 0 {
		ai := 0
		for _, cp := range callee.params {
			if sig := callee.obj.Type().(*types.Signature); sig.Recv() != nil && cp.obj == sig.Recv() {
				continue
			}
			if ai >= len(x.Args) {
				break
			}
			a := x.Args[ai]
			ai++
			for _, io := range callee.inout {
				if io == cp {
					wb = append(wb, localOf(a))
				}
			}
		}
		return c.callExpr(x, true), len(callee.resTypes), wb, true
	}
	if sel, isSel := x.Fun.(*ast.SelectorExpr); isSel {
		// xml.Unmarshal(data, v): the decoder fills the struct behind v - the oracle answers with the error and the filled value
		if id, isId := sel.X.(*ast.Ident); isId && sel.Sel.Name == "Unmarshal" && len(x.Args) == 2 {
			if pn, isPkg := c.info.Uses[id].(*types.PkgName); isPkg && pn.Imported().Path() == "encoding/xml" {
				data := c.expr(x.Args[0])
				target := localOf(x.Args[1])
				tt := c.info.TypeOf(x.Args[1])
				ns := namedStruct(tt)
				if ns == nil || !isPointer(tt) {
					panic("xml.Unmarshal into something other than a pointer to a struct")
				}
				lt := c.w.leanType(tt.(*types.Pointer).Elem())
				o := c.oracle("f_Unmarshal_"+ns.Obj().Name(), "Lib.Bytes → Err × "+lt, "encoding/xml.Unmarshal(data, *"+ns.Obj().Name()+"): the error and the filled value (the pointer itself cannot be changed by the decoder)")
				return val{e: fmt.Sprintf("(let r_ := %s %s; (r_.1, some r_.2))", o, data.e), g: data.g}, 1, []string{target}, true
			}
		}
		// decoder.Decode(&v) with a local decoder and a local struct v: as xml.Unmarshal over the decoder's input
		if rid, isId := sel.X.(*ast.Ident); isId && sel.Sel.Name == "Decode" && len(x.Args) == 1 && c.info.TypeOf(rid) != nil && c.info.TypeOf(rid).String() == "*encoding/xml.Decoder" {
			if u, isAddr := x.Args[0].(*ast.UnaryExpr); isAddr && u.Op.String() == "&" {
				tt := c.info.TypeOf(u.X)
				ns := namedStruct(tt)
				if ns == nil || isPointer(tt) {
					panic("Decode into something other than the address of a struct variable")
				}
				lt := c.w.leanType(tt)
				o := c.oracle("f_Unmarshal_"+ns.Obj().Name(), "Lib.Bytes → Err × "+lt, "encoding/xml.Unmarshal(data, *"+ns.Obj().Name()+"): the error and the filled value (the pointer itself cannot be changed by the decoder)")
				return val{e: fmt.Sprintf("(let r_ := %s s.%s; (r_.1, r_.2))", o, c.locals[c.info.Uses[rid]])}, 1, []string{localOf(u.X)}, true
			}
		}
		if idx, has := outParamMethods[sel.Sel.Name]; has {
			if s := c.info.Selections[sel]; s != nil && s.Kind() == types.MethodVal {
				sig := s.Obj().Type().(*types.Signature)
				k := -1
				for i := 0; i < sig.Params().Len(); i++ {
					if isIgnoredType(sig.Params().At(i).Type()) {
						continue
					}
					k++
					if k == idx {
						wb = append(wb, localOf(x.Args[i]))
					}
				}
				return c.callExpr(x, true), sig.Results().Len(), wb, true
			}
		}
	}
	return val{}, 0, nil, false
}

// callExpr is call(); with wbOK the caller handles the write-back of in-out values
func (c *tctx) callExpr(x *ast.CallExpr, wbOK bool) val {
	old := c.wbOK
	c.wbOK = wbOK
	defer func() { c.wbOK = old }()
	return c.call(x)
}

// assignWB emits `lhs…, wb… := call` for a call recognised by writeBackCall
func (c *tctx) assignWB(lhs []ast.Expr, lhsName func(ast.Expr, types.Type) string, v val, nres int, wb []string, rest []ast.Stmt, ind string) string {
	k := nres + len(wb)
	var lets []string
	lets = append(lets, fmt.Sprintf("%slet t_ := %s;", ind, v.e))
	for i, l := range lhs {
		if i >= nres {
			break
		}
		n := lhsName(l, nil)
		if n != "" {
			lets = append(lets, fmt.Sprintf("%slet s := { s with %s := %s };", ind, n, "t_"+tupleProj(i, k)))
		}
	}
	for j, n := range wb {
		lets = append(lets, fmt.Sprintf("%slet s := { s with %s := %s };", ind, n, "t_"+tupleProj(nres+j, k)))
	}
	return guardWrap(v.g, ind, strings.Join(lets, "\n")+"\n"+c.stmts(rest, ind))
}

// pathUpdate translates an assignment through an access path rooted at a local variable into a functional update:
// it returns the frame field of the root, the new value of that field, and the panic guards (nil pointer on the
// path, index out of range).
func (c *tctx) pathUpdate(lhs ast.Expr, rhs ast.Expr) (string, string, []string) {
	return c.pathUpdateVal(lhs, c.exprAs(rhs, c.info.TypeOf(lhs)))
}

// pathUpdateVal: the same for an already translated right-hand side
func (c *tctx) pathUpdateVal(lhs ast.Expr, v val) (string, string, []string) {
	// collect the path from the root outwards
	type step struct {
		kind  string // "field" | "index" | "deref"
		name  string
		ptr   bool // the base of this step is a pointer (Option)
		index string
	}
	var steps []step
	e := lhs
	for {
		switch x := e.(type) {
		case *ast.ParenExpr:
			e = x.X
			continue
		case *ast.SelectorExpr:
			sel := c.info.Selections[x]
			if sel == nil || sel.Kind() != types.FieldVal {
				panic("unsupported assignment target " + c.src(lhs))
			}
			bt := c.info.TypeOf(x.X)
			ns := namedStruct(bt)
			if ns == nil {
				panic("unsupported assignment target " + c.src(lhs))
			}
			c.w.useField(ns, x.Sel.Name)
			steps = append([]step{{kind: "field", name: x.Sel.Name, ptr: isPointer(bt)}}, steps...)
			e = x.X
			continue
		case *ast.IndexExpr:
			lit, ok := x.Index.(*ast.BasicLit)
			if !ok {
				panic("unsupported assignment target (non-constant index) " + c.src(lhs))
			}
			if _, ok := c.info.TypeOf(x.X).Underlying().(*types.Slice); !ok {
				panic("unsupported assignment target (index of non-slice) " + c.src(lhs))
			}
			steps = append([]step{{kind: "index", index: lit.Value}}, steps...)
			e = x.X
			continue
		case *ast.StarExpr:
			steps = append([]step{{kind: "deref", ptr: true}}, steps...)
			e = x.X
			continue
		}
		break
	}
	id, ok := e.(*ast.Ident)
	if !ok {
		panic("unsupported assignment target " + c.src(lhs))
	}
	obj := c.info.Uses[id]
	root, ok := c.locals[obj]
	if !ok {
		panic("assignment through non-local " + id.Name)
	}
	g := append([]string{}, v.g...)
	// build the update inside out; cur is the Lean expression of the current base value
	var build func(cur string, i int) string
	build = func(cur string, i int) string {
		if i == len(steps) {
			return v.e
		}
		st := steps[i]
		switch st.kind {
		case "field":
			if st.ptr {
				g = append(g, cur+".isNone")
				inner := build(fmt.Sprintf("(deref %s).%s", cur, st.name), i+1)
				return fmt.Sprintf("(some { (deref %s) with %s := %s })", cur, st.name, inner)
			}
			inner := build(fmt.Sprintf("%s.%s", cur, st.name), i+1)
			return fmt.Sprintf("({ %s with %s := %s })", cur, st.name, inner)
		case "index":
			g = append(g, fmt.Sprintf("decide (%s.length ≤ %s)", cur, st.index))
			inner := build(fmt.Sprintf("(%s.getD %s default)", cur, st.index), i+1)
			return fmt.Sprintf("(%s.set %s %s)", cur, st.index, inner)
		case "deref":
			g = append(g, cur+".isNone")
			inner := build(fmt.Sprintf("(deref %s)", cur), i+1)
			return fmt.Sprintf("(some %s)", inner)
		}
		panic("unreachable")
	}
	upd := build("s."+root, 0)
	return root, upd, g
}

func (c *tctx) assign(s *ast.AssignStmt, rest []ast.Stmt, ind string) string {
	tok := s.Tok.String()
	if len(s.Lhs) == 1 && len(s.Rhs) == 1 && isCheckerType(c.info.TypeOf(s.Rhs[0])) {
		// checkerInstance := checker.Checker{}: the chain is collected from the registrations that follow
		if cl, ok := s.Rhs[0].(*ast.CompositeLit); !ok || len(cl.Elts) != 0 || tok != ":=" {
			panic("unsupported checker initialisation")
		}
		c.chk[c.info.Defs[s.Lhs[0].(*ast.Ident)]] = true
		return c.stmts(rest, ind)
	}
	lhsName := func(e ast.Expr, ty types.Type) string {
		id, ok := e.(*ast.Ident)
		if !ok {
			panic("unsupported assignment target " + c.src(e))
		}
		if id.Name == "_" {
			return ""
		}
		var obj types.Object
		if o := c.info.Defs[id]; o != nil {
			obj = o
		} else {
			obj = c.info.Uses[id]
		}
		if n, ok := c.locals[obj]; ok {
			return n
		}
		if _, ok := c.bound[obj]; ok {
			panic("assignment to range variable")
		}
		if tok == ":=" || c.info.Defs[id] != nil {
			return c.newLocal(obj, obj.Type())
		}
		panic("assignment to non-local " + id.Name)
	}
	if len(s.Rhs) == 1 && c.hasEff && !c.effDone[s] {
		// a storage call that leaves a trace (CreateAuthRequest): the call with its arguments is an effect, its answer an oracle
		if call, ok := s.Rhs[0].(*ast.CallExpr); ok {
			if sel, ok := call.Fun.(*ast.SelectorExpr); ok && storageEffects[sel.Sel.Name] {
				if sl := c.info.Selections[sel]; sl != nil && sl.Kind() == types.MethodVal {
					sig := sl.Obj().Type().(*types.Signature)
					var es, tys, g []string
					for i := 0; i < sig.Params().Len(); i++ {
						if isIgnoredType(sig.Params().At(i).Type()) {
							continue
						}
						v := c.expr(call.Args[i])
						es = append(es, v.e)
						g = append(g, v.g...)
						tys = append(tys, c.w.leanType(sig.Params().At(i).Type()))
					}
					name := "call" + sel.Sel.Name
					if _, has := c.w.effs[name]; !has {
						c.w.effs[name] = tys
						c.w.effOrd = append(c.w.effOrd, name)
					}
					if c.effDone == nil {
						c.effDone = map[*ast.AssignStmt]bool{}
					}
					c.effDone[s] = true
					return guardWrap(g, ind, fmt.Sprintf("%slet s := { s with eff_ := s.eff_ ++ [(Eff.%s %s)] };\n%s", ind, name, strings.Join(es, " "), c.assign(s, rest, ind)))
				}
			}
		}
	}
	if len(s.Lhs) == 2 && len(s.Rhs) == 1 {
		// _, ok := r.URL.Query()[key]: presence of a parameter in the query of the request being served (oracle)
		if ix, ok := s.Rhs[0].(*ast.IndexExpr); ok {
			if call, ok := ix.X.(*ast.CallExpr); ok && c.src(call.Fun) != "" {
				if sel, ok := call.Fun.(*ast.SelectorExpr); ok && sel.Sel.Name == "Query" {
					if inner, ok := sel.X.(*ast.SelectorExpr); ok && inner.Sel.Name == "URL" && isIgnoredType(c.info.TypeOf(inner.X)) {
						if id, ok := s.Lhs[0].(*ast.Ident); !ok || id.Name != "_" {
							panic("value of a query parameter read through r.URL.Query()")
						}
						k := c.expr(ix.Index)
						o := c.oracle("urlQueryHas", "String → Bool", "_, ok := r.URL.Query()[name] of the request being served")
						n := lhsName(s.Lhs[1], nil)
						out := ""
						if n != "" {
							out = fmt.Sprintf("%slet s := { s with %s := (%s %s) };\n", ind, n, o, k.e)
						}
						return guardWrap(k.g, ind, out+c.stmts(rest, ind))
					}
				}
			}
		}
	}
	if tok == "+=" {
		n := lhsName(s.Lhs[0], nil)
		v := c.expr(s.Rhs[0])
		op := "+"
		if b, ok := c.info.TypeOf(s.Lhs[0]).Underlying().(*types.Basic); ok && b.Info()&types.IsString != 0 {
			op = "++"
		}
		return guardWrap(v.g, ind, fmt.Sprintf("%slet s := { s with %s := s.%s %s %s };\n%s", ind, n, n, op, v.e, c.stmts(rest, ind)))
	}
	if tok != ":=" && tok != "=" {
		panic("unsupported assignment operator " + tok)
	}
	if len(s.Rhs) == 1 {
		if call, ok := s.Rhs[0].(*ast.CallExpr); ok {
			if sel, ok := call.Fun.(*ast.SelectorExpr); ok {
				if id, ok := sel.X.(*ast.Ident); ok {
					if pn, ok := c.info.Uses[id].(*types.PkgName); ok {
						full := pn.Imported().Path() + "." + sel.Sel.Name
						// err := pem.Encode(buf, &pem.Block{Type: t, Bytes: b}): the encoder is a library oracle, the local
						// buffer grows by what it wrote
						if full == "encoding/pem.Encode" && len(s.Lhs) == 1 && len(call.Args) == 2 {
							bufId, isId := call.Args[0].(*ast.Ident)
							var lit *ast.CompositeLit
							if u, ok := call.Args[1].(*ast.UnaryExpr); ok {
								lit, _ = u.X.(*ast.CompositeLit)
							}
							if isId && lit != nil && c.info.TypeOf(bufId).String() == "*bytes.Buffer" {
								ty, by := "\"\"", "[]"
								var g []string
								for _, el := range lit.Elts {
									kv := el.(*ast.KeyValueExpr)
									v := c.expr(kv.Value)
									g = append(g, v.g...)
									switch kv.Key.(*ast.Ident).Name {
									case "Type":
										ty = v.e
									case "Bytes":
										by = v.e
									default:
										panic("pem.Block with a field other than Type / Bytes")
									}
								}
								bn := c.locals[c.info.Uses[bufId]]
								o := c.oracle("pemEncode", "String → Lib.Bytes → Lib.Bytes × Err", "pem.Encode(buffer, &pem.Block{Type, Bytes}): (what it wrote, its error) (library, not translated)")
								out := fmt.Sprintf("%slet t_ := (%s %s %s);\n%slet s := { s with %s := s.%s ++ t_.1 };\n", ind, o, ty, by, ind, bn, bn)
								if n := lhsName(s.Lhs[0], nil); n != "" {
									out += fmt.Sprintf("%slet s := { s with %s := t_.2 };\n", ind, n)
								}
								return guardWrap(g, ind, out+c.stmts(rest, ind))
							}
						}
						// _, err = io.Copy(w, buf): the bytes of the local buffer are written to the client (effect), the error is
						// the write oracle's
						if full == "io.Copy" && len(s.Lhs) == 2 && len(call.Args) == 2 && isIgnoredType(c.info.TypeOf(call.Args[0])) && c.hasEff {
							if bufId, ok := call.Args[1].(*ast.Ident); ok && c.info.TypeOf(bufId).String() == "*bytes.Buffer" {
								bn := c.locals[c.info.Uses[bufId]]
								if _, has := c.w.effs["writeBody"]; !has {
									c.w.effs["writeBody"] = []string{"Lib.Bytes"}
									c.w.effOrd = append(c.w.effOrd, "writeBody")
								}
								o := c.oracle("writeErr", "String → Nat → Err", "the error a write to the client returns (xml.Write, template.Execute), by calling function and call site")
								k := c.writeSites
								c.writeSites++
								out := fmt.Sprintf("%slet s := { s with eff_ := s.eff_ ++ [(Eff.writeBody s.%s)] };\n", ind, bn)
								if n := lhsName(s.Lhs[0], nil); n != "" {
									out += fmt.Sprintf("%slet s := { s with %s := (Lib.goLen s.%s) };\n", ind, n, bn)
								}
								if n := lhsName(s.Lhs[1], nil); n != "" {
									out += fmt.Sprintf("%slet s := { s with %s := (%s %s %d) };\n", ind, n, o, leanStr(c.f.lean), k)
								}
								// the buffer is drained by the copy
								out += fmt.Sprintf("%slet s := { s with %s := [] };\n", ind, bn)
								return out + c.stmts(rest, ind)
							}
						}
					}
				}
			}
		}
	}
	if len(s.Rhs) == 1 && len(s.Lhs) == 1 {
		if eff, res, ok := c.effectResultCall(s.Rhs[0]); ok {
			n := lhsName(s.Lhs[0], nil)
			out := fmt.Sprintf("%slet s := { s with eff_ := s.eff_ ++ [%s] };\n", ind, eff.e)
			if n != "" {
				out += fmt.Sprintf("%slet s := { s with %s := %s };\n", ind, n, res)
			}
			return guardWrap(eff.g, ind, out+c.stmts(rest, ind))
		}
	}
	if len(s.Rhs) == 1 {
		if v, nres, wb, ok := c.writeBackCall(s.Rhs[0]); ok {
			return c.assignWB(s.Lhs, lhsName, v, nres, wb, rest, ind)
		}
	}
	if tok == "=" && len(s.Lhs) == 1 && len(s.Rhs) == 1 {
		if _, isIdent := s.Lhs[0].(*ast.Ident); !isIdent {
			// x.f = e, x.f.g[0].h = e: functional update of the local x along the access path
			root, upd, g := c.pathUpdate(s.Lhs[0], s.Rhs[0])
			return guardWrap(g, ind, fmt.Sprintf("%slet s := { s with %s := %s };\n%s", ind, root, upd, c.stmts(rest, ind)))
		}
	}
	if len(s.Lhs) == len(s.Rhs) {
		var g []string
		var lets []string
		if len(s.Lhs) > 1 {
			// parallel assignment: evaluate all right-hand sides first
			var tmp []string
			for i, r := range s.Rhs {
				v := c.exprAs(r, c.info.TypeOf(s.Lhs[i]))
				g = append(g, v.g...)
				tmp = append(tmp, v.e)
			}
			for i := range s.Lhs {
				lets = append(lets, fmt.Sprintf("%slet t%d_ := %s;", ind, i, tmp[i]))
			}
			for i, l := range s.Lhs {
				n := lhsName(l, nil)
				if n != "" {
					lets = append(lets, fmt.Sprintf("%slet s := { s with %s := t%d_ };", ind, n, i))
				}
			}
		} else {
			var lt types.Type
			if id, ok := s.Lhs[0].(*ast.Ident); ok && id.Name != "_" {
				lt = c.info.TypeOf(s.Lhs[0])
			}
			v := c.exprAs(s.Rhs[0], lt)
			g = append(g, v.g...)
			n := lhsName(s.Lhs[0], nil)
			if n != "" {
				lets = append(lets, fmt.Sprintf("%slet s := { s with %s := %s };", ind, n, v.e))
			}
		}
		return guardWrap(g, ind, strings.Join(lets, "\n")+"\n"+c.stmts(rest, ind))
	}
	if len(s.Rhs) == 1 {
		// tuple-valued call
		v := c.expr(s.Rhs[0])
		allIdent := true
		for _, l := range s.Lhs {
			if _, ok := l.(*ast.Ident); !ok {
				allIdent = false
			}
		}
		if !allIdent && tok == "=" {
			// x.f, x.g = call(): the results are stored through the access paths, left to right
			out := c.stmts(rest, ind)
			for i := len(s.Lhs) - 1; i >= 0; i-- {
				l := s.Lhs[i]
				proj := "t_" + tupleProj(i, len(s.Lhs))
				if id, ok := l.(*ast.Ident); ok {
					if n := lhsName(id, nil); n != "" {
						out = fmt.Sprintf("%slet s := { s with %s := %s };\n%s", ind, n, proj, out)
					}
					continue
				}
				root, upd, g := c.pathUpdateVal(l, val{e: proj})
				out = guardWrap(g, ind, fmt.Sprintf("%slet s := { s with %s := %s };\n%s", ind, root, upd, out))
			}
			return guardWrap(v.g, ind, fmt.Sprintf("%slet t_ := %s;\n%s", ind, v.e, out))
		}
		var lets []string
		lets = append(lets, fmt.Sprintf("%slet t_ := %s;", ind, v.e))
		for i, l := range s.Lhs {
			n := lhsName(l, nil)
			if n == "" {
				continue
			}
			proj := tupleProj(i, len(s.Lhs))
			lets = append(lets, fmt.Sprintf("%slet s := { s with %s := t_%s };", ind, n, proj))
		}
		return guardWrap(v.g, ind, strings.Join(lets, "\n")+"\n"+c.stmts(rest, ind))
	}
	panic("unsupported assignment shape")
}

func tupleProj(i, n int) string {
	// right-nested pairs: (a, b, c) = (a, (b, c))
	p := ""
	for k := 0; k < i; k++ {
		p += ".2"
	}
	if i < n-1 {
		p += ".1"
	}
	return p
}

func (c *tctx) src(e ast.Expr) string {
	return types.ExprString(e)
}

// exprAs translates e; `want` gives the expected Go type (needed for nil and untyped constants).
func (c *tctx) exprAs(e ast.Expr, want types.Type) val {
	if id, ok := e.(*ast.Ident); ok && id.Name == "nil" && want != nil {
		return val{e: c.nilOf(want)}
	}
	return c.expr(e)
}

func (c *tctx) nilOf(t types.Type) string {
	if isErrorType(t) {
		return "(none : Err)"
	}
	switch t.Underlying().(type) {
	case *types.Pointer:
		if isByteHolder(t) {
			return "[]"
		}
		return "none"
	case *types.Slice, *types.Map:
		return "[]"
	}
	return "default"
}

func leanChar(r rune) string {
	switch r {
	case '\'':
		return "'\\''"
	case '\\':
		return "'\\\\'"
	}
	return "'" + string(r) + "'"
}

func leanStr(s string) string {
	var sb strings.Builder
	sb.WriteByte('"')
	for _, r := range s {
		switch {
		case r == '"':
			sb.WriteString("\\\"")
		case r == '\\':
			sb.WriteString("\\\\")
		case r == '\n':
			sb.WriteString("\\n")
		case r == '\t':
			sb.WriteString("\\t")
		case r == '\r':
			sb.WriteString("\\r")
		case r < 0x20 || r == 0x7f:
			fmt.Fprintf(&sb, "\\x%02x", r)
		default:
			sb.WriteRune(r)
		}
	}
	sb.WriteByte('"')
	return sb.String()
}

func (c *tctx) constVal(e ast.Expr) (string, bool) {
	tv, ok := c.info.Types[e]
	if !ok || tv.Value == nil {
		return "", false
	}
	switch tv.Value.Kind().String() {
	case "String":
		s := ""
		_ = json.Unmarshal([]byte(tv.Value.ExactString()), &s)
		if s == "" && tv.Value.ExactString() != `""` {
			// fall back for strings json cannot parse
			s = strings.Trim(tv.Value.ExactString(), `"`)
		}
		c.w.pool[s] = true
		return leanStr(s), true
	case "Bool":
		return tv.Value.ExactString(), true
	case "Int":
		return "(" + tv.Value.ExactString() + " : Int)", true
	}
	return "", false
}

func (c *tctx) expr(e ast.Expr) val {
	if cv, ok := c.constVal(e); ok {
		return val{e: cv}
	}
	switch x := e.(type) {
	case *ast.ParenExpr:
		v := c.expr(x.X)
		return val{e: "(" + v.e + ")", g: v.g}
	case *ast.Ident:
		obj := c.info.Uses[x]
		if obj == nil {
			obj = c.info.Defs[x]
		}
		if n, ok := c.bound[obj]; ok {
			return val{e: n}
		}
		if n, ok := c.locals[obj]; ok {
			return val{e: "s." + n}
		}
		if v, ok := obj.(*types.Var); ok && v.Pkg() != nil && v.Parent() == v.Pkg().Scope() {
			return val{e: c.pkgVar(v)}
		}
		panic("unsupported identifier " + x.Name)
	case *ast.SelectorExpr:
		if id, ok := x.X.(*ast.Ident); ok {
			if _, ok := c.info.Uses[id].(*types.PkgName); ok {
				obj := c.info.Uses[x.Sel]
				if v, ok := obj.(*types.Var); ok {
					return val{e: c.pkgVar(v)}
				}
				panic("unsupported package member " + c.src(x))
			}
		}
		sel := c.info.Selections[x]
		if sel == nil || sel.Kind() != types.FieldVal {
			panic("unsupported selector " + c.src(x))
		}
		if x.Sel.Name == "Host" && isIgnoredType(c.info.TypeOf(x.X)) {
			return val{e: c.oracle("reqHost", "String", "r.Host of the request being served")}
		}
		base := c.expr(x.X)
		bt := c.info.TypeOf(x.X)
		ns := namedStruct(bt)
		if ns == nil {
			panic("field of non-struct " + c.src(x))
		}
		full := ns.Obj().Pkg().Path() + "." + ns.Obj().Name()
		if full == "net/url.URL" || full == "crypto/rsa.PrivateKey" {
			// library record with a fixed model
			if isPointer(bt) {
				return val{e: fmt.Sprintf("(deref %s).%s", base.e, x.Sel.Name), g: append(base.g, base.e+".isNone")}
			}
			return val{e: fmt.Sprintf("%s.%s", base.e, x.Sel.Name), g: base.g}
		}
		c.w.useField(ns, x.Sel.Name)
		if isPointer(bt) && !c.isBoundNonNil(x.X) {
			g := append(append([]string{}, base.g...), base.e+".isNone")
			return val{e: fmt.Sprintf("(deref %s).%s", base.e, x.Sel.Name), g: g}
		}
		return val{e: fmt.Sprintf("%s.%s", base.e, x.Sel.Name), g: base.g}
	case *ast.StarExpr:
		v := c.expr(x.X)
		return val{e: "(deref " + v.e + ")", g: append(v.g, v.e+".isNone")}
	case *ast.UnaryExpr:
		switch x.Op.String() {
		case "!":
			v := c.expr(x.X)
			return val{e: "(!" + v.e + ")", g: v.g}
		case "&":
			v := c.expr(x.X)
			return val{e: "(some " + v.e + ")", g: v.g}
		case "-":
			v := c.expr(x.X)
			return val{e: "(-" + v.e + ")", g: v.g}
		}
		panic("unsupported unary " + x.Op.String())
	case *ast.BinaryExpr:
		return c.binary(x)
	case *ast.SliceExpr:
		// s[:i], s[i:] on a string: byte offsets (Lib.byteTake / Lib.byteDrop); out of range panics as in Go
		if b, ok := c.info.TypeOf(x.X).Underlying().(*types.Basic); !ok || b.Info()&types.IsString == 0 || x.Slice3 || (x.Low != nil && x.High != nil) || (x.Low == nil && x.High == nil) {
			panic("unsupported slice expression " + c.src(x))
		}
		sv := c.expr(x.X)
		if x.High != nil {
			iv := c.expr(x.High)
			g := append(append(sv.g, iv.g...), fmt.Sprintf("decide (%s < 0)", iv.e), fmt.Sprintf("decide (%s > Lib.goLen %s)", iv.e, sv.e))
			return val{e: fmt.Sprintf("(Lib.byteTake %s %s)", sv.e, iv.e), g: g}
		}
		iv := c.expr(x.Low)
		g := append(append(sv.g, iv.g...), fmt.Sprintf("decide (%s < 0)", iv.e), fmt.Sprintf("decide (%s > Lib.goLen %s)", iv.e, sv.e))
		return val{e: fmt.Sprintf("(Lib.byteDrop %s %s)", sv.e, iv.e), g: g}
	case *ast.IndexExpr:
		// l[k] with a constant index on a slice: out of range panics
		if lit, ok := x.Index.(*ast.BasicLit); ok {
			if _, isSlice := c.info.TypeOf(x.X).Underlying().(*types.Slice); isSlice {
				v := c.expr(x.X)
				return val{e: fmt.Sprintf("(%s.getD %s default)", v.e, lit.Value), g: append(v.g, fmt.Sprintf("decide (%s.length ≤ %s)", v.e, lit.Value))}
			}
		}
		// r.Header[name]: the values of one header of the request being served (oracle); the key is used as given
		if hs, ok := x.X.(*ast.SelectorExpr); ok && hs.Sel.Name == "Header" && isIgnoredType(c.info.TypeOf(hs.X)) {
			k := c.expr(x.Index)
			return val{e: fmt.Sprintf("(%s %s)", c.oracle("headerValues", "String → (List String)", "r.Header[name] of the request being served"), k.e), g: k.g}
		}
		panic("unsupported index expression " + c.src(x))
	case *ast.CallExpr:
		return c.call(x)
	case *ast.CompositeLit:
		return c.composite(x)
	case *ast.FuncLit:
		// getter closure literal: func() T { return e }
		if len(x.Body.List) == 1 {
			if r, ok := x.Body.List[0].(*ast.ReturnStmt); ok && len(r.Results) == 1 {
				return c.expr(r.Results[0])
			}
		}
		panic("unsupported closure literal")
	}
	panic(fmt.Sprintf("unsupported expression %T: %s", e, c.src(e)))
}

func (c *tctx) isBoundNonNil(e ast.Expr) bool {
	if id, ok := e.(*ast.Ident); ok {
		obj := c.info.Uses[id]
		return boundPtrs[obj]
	}
	return false
}

func (c *tctx) pkgVar(v *types.Var) string {
	// package-level variable: use its literal initialiser
	for _, p := range c.w.pkgs {
		if p.Types != v.Pkg() {
			continue
		}
		for _, file := range p.Syntax {
			for _, d := range file.Decls {
				gd, ok := d.(*ast.GenDecl)
				if !ok {
					continue
				}
				for _, sp := range gd.Specs {
					vs, ok := sp.(*ast.ValueSpec)
					if !ok {
						continue
					}
					for i, id := range vs.Names {
						if p.TypesInfo.Defs[id] == v && i < len(vs.Values) {
							if call, ok := vs.Values[i].(*ast.CallExpr); ok && len(call.Args) == 1 && types.ExprString(call.Fun) == "errors.New" {
								if tv, ok := p.TypesInfo.Types[call.Args[0]]; ok && tv.Value != nil {
									s := ""
									_ = json.Unmarshal([]byte(tv.Value.ExactString()), &s)
									return "(some " + leanStr(s) + " : Err)"
								}
							}
							if tv, ok := p.TypesInfo.Types[vs.Values[i]]; ok && tv.Value != nil && tv.Value.Kind().String() == "String" {
								s := ""
								_ = json.Unmarshal([]byte(tv.Value.ExactString()), &s)
								c.w.pool[s] = true
								return leanStr(s)
							}
						}
					}
				}
			}
		}
	}
	panic("unsupported package variable " + v.Name())
}

func isNilIdent(e ast.Expr) bool {
	id, ok := e.(*ast.Ident)
	return ok && id.Name == "nil"
}

func (c *tctx) binary(x *ast.BinaryExpr) val {
	op := x.Op.String()
	switch op {
	case "&&", "||":
		a := c.expr(x.X)
		b := c.expr(x.Y)
		g := append([]string{}, a.g...)
		if len(b.g) > 0 {
			if op == "&&" {
				g = append(g, fmt.Sprintf("(%s && (%s))", a.e, orGuards(b.g)))
			} else {
				g = append(g, fmt.Sprintf("(!%s && (%s))", a.e, orGuards(b.g)))
			}
		}
		return val{e: fmt.Sprintf("(%s %s %s)", a.e, op, b.e), g: g}
	case "==", "!=":
		neg := op == "!="
		if isNilIdent(x.Y) || isNilIdent(x.X) {
			other := x.X
			if isNilIdent(x.X) {
				other = x.Y
			}
			// getter parameter compared with nil: a func value is never nil
			if id, ok := other.(*ast.Ident); ok {
				if obj := c.info.Uses[id]; obj != nil && c.getters[obj] {
					if neg {
						return val{e: "true"}
					}
					return val{e: "false"}
				}
			}
			v := c.expr(other)
			t := c.info.TypeOf(other)
			var test string
			switch {
			case isErrorType(t):
				test = v.e + ".isNone"
			case isPointer(t):
				test = v.e + ".isNone"
			default:
				switch t.Underlying().(type) {
				case *types.Slice, *types.Map:
					test = v.e + ".isEmpty"
				case *types.Interface:
					test = v.e + ".isNone"
				default:
					panic("nil comparison on " + t.String())
				}
			}
			if neg {
				test = "(!" + test + ")"
			}
			return val{e: test, g: v.g}
		}
		a := c.expr(x.X)
		b := c.expr(x.Y)
		o := "=="
		if neg {
			o = "!="
		}
		return val{e: fmt.Sprintf("(%s %s %s)", a.e, o, b.e), g: append(a.g, b.g...)}
	case "<", "<=", ">", ">=":
		a := c.expr(x.X)
		b := c.expr(x.Y)
		return val{e: fmt.Sprintf("(decide (%s %s %s))", a.e, op, b.e), g: append(a.g, b.g...)}
	case "+":
		a := c.expr(x.X)
		b := c.expr(x.Y)
		o := "+"
		if bt, ok := c.info.TypeOf(x).Underlying().(*types.Basic); ok && bt.Info()&types.IsString != 0 {
			o = "++"
		}
		return val{e: fmt.Sprintf("(%s %s %s)", a.e, o, b.e), g: append(a.g, b.g...)}
	case "-", "*":
		a := c.expr(x.X)
		b := c.expr(x.Y)
		return val{e: fmt.Sprintf("(%s %s %s)", a.e, op, b.e), g: append(a.g, b.g...)}
	}
	panic("unsupported binary operator " + op)
}

func (c *tctx) composite(x *ast.CompositeLit) val {
	t := c.info.TypeOf(x)
	switch u := t.Underlying().(type) {
	case *types.Slice:
		var es []string
		var g []string
		for _, el := range x.Elts {
			var v val
			if cl, ok := el.(*ast.CompositeLit); ok && cl.Type == nil {
				v = c.compositeOf(cl, u.Elem())
			} else {
				v = c.expr(el)
			}
			es = append(es, v.e)
			g = append(g, v.g...)
		}
		return val{e: "[" + strings.Join(es, ", ") + "]", g: g}
	case *types.Struct:
		return c.compositeOf(x, t)
	}
	panic("unsupported composite literal " + t.String())
}

func (c *tctx) compositeOf(x *ast.CompositeLit, t types.Type) val {
	ns := namedStruct(t)
	if ns == nil {
		panic("composite literal of unnamed struct")
	}
	st := ns.Underlying().(*types.Struct)
	name := c.w.structName(ns)
	var fs []string
	var g []string
	for i, el := range x.Elts {
		var fname string
		var fe ast.Expr
		if kv, ok := el.(*ast.KeyValueExpr); ok {
			fname = kv.Key.(*ast.Ident).Name
			fe = kv.Value
		} else {
			fname = st.Field(i).Name()
			fe = el
		}
		var ft types.Type
		for j := 0; j < st.NumFields(); j++ {
			if st.Field(j).Name() == fname {
				ft = st.Field(j).Type()
			}
		}
		if ft != nil && ft.String() == "encoding/xml.Name" {
			continue
		}
		if ft != nil {
			if _, isFunc := ft.Underlying().(*types.Signature); isFunc || ft.String() == "*html/template.Template" {
				continue // callbacks and templates are not part of the decision data
			}
		}
		c.w.useField(ns, fname)
		var v val
		if cl, ok := fe.(*ast.CompositeLit); ok && cl.Type == nil {
			v = c.compositeOf(cl, ft)
		} else {
			v = c.exprAs(fe, ft)
		}
		fs = append(fs, fmt.Sprintf("%s := %s", fname, v.e))
		g = append(g, v.g...)
	}
	if len(fs) == 0 {
		return val{e: "(default : " + name + ")", g: g}
	}
	return val{e: fmt.Sprintf("({ (default : %s) with %s })", name, strings.Join(fs, ", ")), g: g}
}

func (c *tctx) args(call *ast.CallExpr) ([]string, []string) {
	var es, g []string
	for _, a := range call.Args {
		if t := c.info.TypeOf(a); t != nil && isIgnoredType(t) {
			es = append(es, "()")
			continue
		}
		v := c.expr(a)
		es = append(es, v.e)
		g = append(g, v.g...)
	}
	return es, g
}

func (c *tctx) oracle(name, typ, doc string) string {
	if _, ok := c.w.oracles[name]; !ok {
		c.w.oracles[name] = &oracle{name: name, typ: typ, doc: doc}
		c.w.oraOrd = append(c.w.oraOrd, name)
	}
	c.f.usesOra = true
	return "o." + name
}

func (c *tctx) call(x *ast.CallExpr) val {
	// conversions
	if tv, ok := c.info.Types[x.Fun]; ok && tv.IsType() {
		v := c.expr(x.Args[0])
		from := c.info.TypeOf(x.Args[0])
		to := tv.Type
		isStr := func(t types.Type) bool {
			b, ok := t.Underlying().(*types.Basic)
			return ok && b.Info()&types.IsString != 0
		}
		if isStr(to) && from.String() == "[]byte" {
			return val{e: "(Lib.bytesToString " + v.e + ")", g: v.g}
		}
		if to.String() == "[]byte" && isStr(from) {
			return val{e: "(Lib.stringToBytes " + v.e + ")", g: v.g}
		}
		return v
	}
	// f(args)() : call of a translated closure-returning function
	if inner, ok := x.Fun.(*ast.CallExpr); ok && len(x.Args) == 0 {
		if callee := c.calleeFn(inner.Fun); callee != nil && callee.inner != nil {
			return c.callTranslated(callee, inner)
		}
		panic("unsupported call of call " + c.src(x))
	}
	switch fun := x.Fun.(type) {
	case *ast.Ident:
		obj := c.info.Uses[fun]
		if _, ok := obj.(*types.Builtin); ok {
			switch fun.Name {
			case "new":
				if t := c.info.TypeOf(x); t != nil && t.String() == "*bytes.Buffer" {
					return val{e: "([] : Lib.Bytes)"}
				}
				panic("unsupported new(" + c.src(x.Args[0]) + ")")
			case "len":
				v := c.expr(x.Args[0])
				t := c.info.TypeOf(x.Args[0])
				if b, ok := t.Underlying().(*types.Basic); ok && b.Info()&types.IsString != 0 {
					return val{e: "(Lib.goLen " + v.e + ")", g: v.g}
				}
				return val{e: "(" + v.e + ".length : Int)", g: v.g}
			case "append":
				base := c.expr(x.Args[0])
				es := []string{}
				g := base.g
				for _, a := range x.Args[1:] {
					v := c.expr(a)
					es = append(es, v.e)
					g = append(g, v.g...)
				}
				// pointer element types: &T{..} translated as `some v`; lists hold values
				elemPtr := false
				if sl, ok := c.info.TypeOf(x.Args[0]).Underlying().(*types.Slice); ok {
					elemPtr = isPointer(sl.Elem())
				}
				_ = elemPtr
				return val{e: fmt.Sprintf("(%s ++ [%s])", base.e, strings.Join(es, ", ")), g: g}
			case "make":
				return val{e: "[]"}
			}
			panic("unsupported builtin " + fun.Name)
		}
		if obj != nil && c.getters[obj] {
			if len(x.Args) != 0 {
				panic("getter with arguments")
			}
			return val{e: "s." + c.locals[obj]}
		}
		if callee := c.calleeFn(fun); callee != nil {
			if callee.inner != nil {
				panic("closure-returning function used as value: " + fun.Name)
			}
			return c.callTranslated(callee, x)
		}
		if f, ok := obj.(*types.Func); ok && f.Name() == "NewID" && f.Pkg() != nil && strings.HasSuffix(f.Pkg().Path(), "pkg/provider") && len(x.Args) == 0 {
			// NewID(): the identifier source is an oracle, indexed by the calling function and the call site within it
			o := c.oracle("newID", "String → Nat → String", "provider.NewID(): identifier drawn at the k-th call site of the named function")
			c.w.oracles["newID"].dflt = "fun f k => \"_\" ++ f ++ \"-\" ++ toString k"
			k := c.newIDSites
			c.newIDSites++
			return val{e: fmt.Sprintf("(%s %s %d)", o, leanStr(c.f.lean), k)}
		}
		if f, ok := obj.(*types.Func); ok && funcOracles[f.Name()] && f.Pkg() != nil && strings.Contains(f.Pkg().Path(), "zitadel/saml") {
			return c.funcOracle(f, x)
		}
		panic("unsupported call " + c.src(x))
	case *ast.SelectorExpr:
		// package function?
		if id, ok := fun.X.(*ast.Ident); ok {
			if pn, ok := c.info.Uses[id].(*types.PkgName); ok {
				if callee := c.calleeFn(fun); callee != nil && callee.inner == nil && callee.obj.Type().(*types.Signature).Recv() == nil {
					return c.callTranslated(callee, x) // a translated function of another package of the library
				}
				return c.libCall(pn.Imported().Path(), fun.Sel.Name, x)
			}
		}
		// method
		if callee := c.calleeFn(fun); callee != nil {
			recv := c.expr(fun.X)
			var es, g []string
			{
				msig := callee.obj.Type().(*types.Signature)
				for i, a := range x.Args {
					if i < msig.Params().Len() && isIgnoredType(msig.Params().At(i).Type()) {
						continue // dropped from the translated signature as well
					}
					var v val
					if i < msig.Params().Len() && !msig.Variadic() {
						v = c.exprAs(a, msig.Params().At(i).Type())
					} else {
						v = c.expr(a)
					}
					es = append(es, v.e)
					g = append(g, v.g...)
				}
			}
			g = append(recv.g, g...)
			all := append([]string{recv.e}, es...)
			// receiver pointer-ness: translated methods take the receiver as declared
			sig := callee.obj.Type().(*types.Signature)
			rt := sig.Recv().Type()
			at := c.info.TypeOf(fun.X)
			if isPointer(rt) && !isPointer(at) {
				all[0] = "(some " + recv.e + ")"
			} else if !isPointer(rt) && isPointer(at) {
				g = append(g, recv.e+".isNone")
				all[0] = "(deref " + recv.e + ")"
			}
			call := fmt.Sprintf("(%s o %s)", callee.lean, strings.Join(all, " "))
			return val{e: call + ".get", g: append(g, call+".isPanic")}
		}
		return c.methodCall(fun, x)
	}
	panic("unsupported call " + c.src(x))
}

func (c *tctx) calleeFn(e ast.Expr) *fn {
	var id *ast.Ident
	switch f := e.(type) {
	case *ast.Ident:
		id = f
	case *ast.SelectorExpr:
		id = f.Sel
	default:
		return nil
	}
	obj := c.info.Uses[id]
	if obj == nil {
		return nil
	}
	if f, ok := c.w.byObj[obj]; ok {
		if standaloneOnly[f.spec.key()] && !standaloneOnly[c.f.spec.key()] {
			return nil // standalone functions call each other translated; everybody else keeps the oracle
		}
		if f.failed != "" {
			panic("callee " + f.spec.key() + " untranslated: " + f.failed)
		}
		return f
	}
	return nil
}

func (c *tctx) callTranslated(callee *fn, x *ast.CallExpr) val {
	if len(callee.inout) > 0 && !c.wbOK {
		panic("call of " + callee.lean + " (in-out parameters) in expression position")
	}
	var es, g []string
	ai := 0
	for _, p := range callee.params {
		if callee.obj.Type().(*types.Signature).Recv() != nil && p.obj == callee.obj.Type().(*types.Signature).Recv() {
			continue
		}
		if ai >= len(x.Args) {
			break
		}
		a := x.Args[ai]
		ai++
		if p.kind == "ignored" || p.kind == "setter" || p.name == "_" {
			continue
		}
		var v val
		if p.kind == "getter" {
			// argument is a func() T: a closure literal or a getter parameter of ours
			switch at := a.(type) {
			case *ast.FuncLit:
				v = c.expr(at)
			case *ast.Ident:
				obj := c.info.Uses[at]
				if c.getters[obj] {
					v = val{e: "s." + c.locals[obj]}
				} else {
					panic("unsupported getter argument " + at.Name)
				}
			default:
				panic("unsupported getter argument " + c.src(a))
			}
		} else {
			v = c.exprAs(a, p.typ)
		}
		es = append(es, v.e)
		g = append(g, v.g...)
	}
	call := fmt.Sprintf("(%s o %s)", callee.lean, strings.Join(es, " "))
	if len(es) == 0 {
		call = fmt.Sprintf("(%s o)", callee.lean)
	}
	return val{e: call + ".get", g: append(g, call+".isPanic")}
}


// funcOracle: an untranslated function of the library used as an oracle, typed by its Go signature
func (c *tctx) funcOracle(f *types.Func, x *ast.CallExpr) val {
		// an untranslated function of the library used as an oracle, typed by its Go signature
		sig := f.Type().(*types.Signature)
		es, g := c.args(x)
		var ats, rts []string
		oname := "f_" + f.Name()
		for i := 0; i < sig.Params().Len(); i++ {
			pt := sig.Params().At(i).Type()
			if _, isIface := pt.Underlying().(*types.Interface); isIface && !isIgnoredType(pt) && i < len(x.Args) {
				// interface{} parameter: the oracle is typed (and named) by the argument it is given here
				pt = c.info.TypeOf(x.Args[i])
				if n := namedStruct(pt); n != nil {
					oname += "_" + n.Obj().Name()
				}
			}
			ats = append(ats, c.w.leanType(pt))
		}
		for i := 0; i < sig.Results().Len(); i++ {
			rts = append(rts, c.w.leanType(sig.Results().At(i).Type()))
		}
		rt := "Unit"
		if len(rts) > 0 {
			rt = strings.Join(rts, " × ")
		}
		o := c.oracle(oname, strings.Join(append(ats, rt), " → "), "function "+f.FullName()+" (not translated)")
		return val{e: fmt.Sprintf("(%s %s)", o, strings.Join(es, " ")), g: g}
}

func (c *tctx) libCall(pkg, name string, x *ast.CallExpr) val {
	if strings.Contains(pkg, "zitadel/saml") && funcOracles[name] {
		if sel, ok := x.Fun.(*ast.SelectorExpr); ok {
			if f, ok := c.info.Uses[sel.Sel].(*types.Func); ok {
				return c.funcOracle(f, x)
			}
		}
	}
	if (pkg == "io/ioutil" || pkg == "io") && name == "ReadAll" && len(x.Args) == 1 {
		if sel, ok := x.Args[0].(*ast.SelectorExpr); ok && sel.Sel.Name == "Body" && isIgnoredType(c.info.TypeOf(sel.X)) {
			// the body of the request being served
			return val{e: c.oracle("readBody", "Lib.Bytes × Err", "ioutil.ReadAll(r.Body) of the request being served")}
		}
	}
	es, g := c.args(x)
	switch pkg + "." + name {
	case "strconv.Atoi":
		// (int, error)
		return val{e: fmt.Sprintf("(let r_ := Lib.atoi %s; (r_.1, (if r_.2 then (none : Err) else some \"strconv.Atoi\")))", es[0]), g: g}
	case "github.com/muhlemmer/httpforwarded.ParseParameter":
		// RFC 7239 parser of the vendored library: (values of the named parameter in order, error)
		return val{e: fmt.Sprintf("(%s %s %s)", c.oracle("forwardedParse", "String → (List String) → (List String) × Err", "httpforwarded.ParseParameter(name, headerValues) (library, not translated)"), es[0], es[1]), g: g}
	case "net/url.QueryEscape":
		return val{e: "(Lib.queryEscape " + es[0] + ")", g: g}
	case "strings.TrimPrefix":
		return val{e: fmt.Sprintf("(Lib.trimPrefix %s %s)", es[0], es[1]), g: g}
	case "strings.TrimSuffix":
		return val{e: fmt.Sprintf("(Lib.trimSuffix %s %s)", es[0], es[1]), g: g}
	case "strings.HasPrefix":
		return val{e: fmt.Sprintf("(Lib.hasPrefix %s %s)", es[0], es[1]), g: g}
	case "strings.Fields":
		return val{e: "(Lib.fields " + es[0] + ")", g: g}
	case "strings.Join":
		return val{e: fmt.Sprintf("(Lib.join %s %s)", es[0], es[1]), g: g}
	case "strings.ContainsAny":
		return val{e: fmt.Sprintf("(Lib.containsAny %s %s)", es[0], es[1]), g: g}
	case "strings.Index", "strings.Contains":
		tv := c.info.Types[x.Args[1]]
		var sub string
		if tv.Value != nil {
			_ = json.Unmarshal([]byte(tv.Value.ExactString()), &sub)
		}
		if len(sub) != 1 || sub[0] >= 0x80 {
			panic(pkg + "." + name + " with an argument other than a one-character ASCII constant")
		}
		if name == "Index" {
			return val{e: fmt.Sprintf("(Lib.indexChar %s %s)", es[0], leanChar(rune(sub[0]))), g: g}
		}
		return val{e: fmt.Sprintf("(%s.toList.contains %s)", es[0], leanChar(rune(sub[0]))), g: g}
	case "strings.HasSuffix":
		return val{e: fmt.Sprintf("(Lib.hasSuffix %s %s)", es[0], es[1]), g: g}
	case "fmt.Errorf", "errors.New":
		tv := c.info.Types[x.Args[0]]
		if tv.Value == nil {
			// fmt.Errorf(variable): use the variable's text
			return val{e: "(some " + es[0] + " : Err)", g: g}
		}
		if len(es) > 1 {
			// fmt.Errorf("…: %w", err): the text, with the wrapped error's text in place (an error in argument position
			// is non-nil wherever the code formats it; a nil one would print as %!w(<nil>), which the model writes as "")
			var format string
			_ = json.Unmarshal([]byte(tv.Value.ExactString()), &format)
			re := regexp.MustCompile(`%[wsv]`)
			parts := re.Split(format, -1)
			if !strings.Contains(strings.Join(parts, ""), "%") && len(parts)-1 == len(es)-1 {
				ok := true
				var cat []string
				for i, p := range parts {
					if p != "" {
						cat = append(cat, leanStr(p))
					}
					if i < len(parts)-1 {
						switch c.info.TypeOf(x.Args[i+1]).String() {
						case "error":
							cat = append(cat, "("+es[i+1]+".getD \"\")")
						case "string":
							cat = append(cat, es[i+1])
						default:
							ok = false
						}
					}
				}
				if ok {
					return val{e: "(some (" + strings.Join(cat, " ++ ") + ") : Err)", g: g}
				}
			}
		}
		return val{e: "(some " + es[0] + " : Err)", g: g}
	case "fmt.Sprintf":
		tv := c.info.Types[x.Args[0]]
		if tv.Value == nil {
			panic("Sprintf with non-constant format")
		}
		var format string
		_ = json.Unmarshal([]byte(tv.Value.ExactString()), &format)
		parts := strings.Split(format, "%s")
		if strings.Contains(strings.Join(parts, ""), "%") || len(parts)-1 != len(es)-1 {
			panic("Sprintf format beyond %s")
		}
		var cat []string
		for i, p := range parts {
			if p != "" {
				cat = append(cat, leanStr(p))
			}
			if i < len(parts)-1 {
				cat = append(cat, es[i+1])
			}
		}
		if len(cat) == 0 {
			return val{e: "\"\"", g: g}
		}
		return val{e: "(" + strings.Join(cat, " ++ ") + ")", g: g}
	case "reflect.DeepEqual":
		if !types.Identical(c.info.TypeOf(x.Args[0]), c.info.TypeOf(x.Args[1])) {
			// reflect.DeepEqual on values of different dynamic types is false
			return val{e: "false", g: g}
		}
		return val{e: fmt.Sprintf("(%s == %s)", es[0], es[1]), g: g}
	case "time.Now":
		return val{e: c.oracle("now", "Int", "time.Now() as an instant"), g: g}
	case "time.Parse":
		o := c.oracle("timeParse", "String → String → Option Int", "time.Parse(layout, value): none = error")
		return val{e: fmt.Sprintf("(let r_ := %s %s %s; (r_.getD 0, (if r_.isSome then (none : Err) else some \"time.Parse\")))", o, es[0], es[1]), g: g}
	case "net/url.Parse":
		o := c.oracle("urlParse", "String → Option UrlRec", "url.Parse: none = error")
		return val{e: fmt.Sprintf("(let r_ := %s %s; (r_, (if r_.isSome then (none : Err) else some \"url.Parse\")))", o, es[0]), g: g}
	case "io.ReadAll":
		return val{e: fmt.Sprintf("(Lib.readAll %s)", es[0]), g: g}
	case "io.LimitReader":
		return val{e: fmt.Sprintf("(Lib.limitReader %s %s)", es[0], es[1]), g: g}
	case "compress/flate.NewReader":
		o := c.oracle("inflate", "Lib.Bytes → Lib.Stream", "flate.NewReader over the given bytes: the stream of inflated bytes (or an error after some prefix)")
		return val{e: fmt.Sprintf("(%s %s)", o, es[0]), g: g}
	case "bytes.NewBuffer", "bytes.NewReader", "strings.NewReader":
		return val{e: es[0], g: g}
	case "encoding/xml.NewDecoder":
		// the decoder is its input
		if t := c.info.TypeOf(x.Args[0]); t != nil && t.String() == "*strings.Reader" {
			return val{e: "(Lib.stringToBytes " + es[0] + ")", g: g}
		}
		return val{e: es[0], g: g}
	}
	// base64.StdEncoding.X is a method call on a package variable; handled in methodCall
	panic("unsupported library call " + pkg + "." + name)
}

func (c *tctx) methodCall(fun *ast.SelectorExpr, x *ast.CallExpr) val {
	recvT := c.info.TypeOf(fun.X)
	rs := recvT.String()
	name := fun.Sel.Name
	es, g := c.args(x)
	switch {
	case rs == "time.Time":
		recv := c.expr(fun.X)
		g = append(recv.g, g...)
		switch name {
		case "UTC":
			return val{e: recv.e, g: g}
		case "After":
			return val{e: fmt.Sprintf("(decide (%s > %s))", recv.e, es[0]), g: g}
		case "Before":
			return val{e: fmt.Sprintf("(decide (%s < %s))", recv.e, es[0]), g: g}
		case "Equal":
			return val{e: fmt.Sprintf("(%s == %s)", recv.e, es[0]), g: g}
		case "Add":
			return val{e: fmt.Sprintf("(%s + %s)", recv.e, es[0]), g: g}
		}
	case rs == "*encoding/base64.Encoding":
		switch name {
		case "EncodeToString":
			return val{e: "(Lib.b64encode " + es[0] + ")", g: g}
		case "DecodeString":
			return val{e: fmt.Sprintf("(let r_ := Lib.b64decode %s; (r_.getD [], (if r_.isSome then (none : Err) else some \"base64\")))", es[0]), g: g}
		}
	case rs == "net/http.Header" && name == "Get":
		// r.Header.Get(name) of the request being served
		if hs, ok := fun.X.(*ast.SelectorExpr); ok && hs.Sel.Name == "Header" && isIgnoredType(c.info.TypeOf(hs.X)) {
			return val{e: fmt.Sprintf("(%s %s)", c.oracle("headerGet", "String → String", "r.Header.Get(name) of the request being served"), es[0]), g: g}
		}
	case rs == "*net/http.Request" && name == "ParseForm":
		return val{e: c.oracle("m_ParseForm", "Err", "(*http.Request).ParseForm"), g: g}
	case rs == "*net/http.Request" && name == "FormValue":
		return val{e: fmt.Sprintf("(%s %s)", c.oracle("formValue", "String → String", "r.FormValue(name) of the request being served"), es[0]), g: g}
	case rs == "net/url.Values" && name == "Get":
		// r.Form.Get(name): the request's form as an oracle
		return val{e: fmt.Sprintf("(%s %s)", c.oracle("formGet", "String → String", "r.Form.Get(name) of the request being served"), es[0]), g: g}
	case rs == "error" && name == "Error":
		recv := c.expr(fun.X)
		return val{e: fmt.Sprintf("(%s.getD \"\")", recv.e), g: append(recv.g, g...)}
	case rs == "*net/url.URL" && name == "Hostname":
		recv := c.expr(fun.X)
		return val{e: fmt.Sprintf("(deref %s).hostname", recv.e), g: append(append(recv.g, recv.e+".isNone"), g...)}
	case rs == "*net/url.URL" && name == "Query":
		recv := c.expr(fun.X)
		return val{e: fmt.Sprintf("(deref %s).queryKeys", recv.e), g: append(append(recv.g, recv.e+".isNone"), g...)}
	}
	// interface or untranslated method: oracle keyed by method name, receiver passed when it is a modelled struct
	if sel := c.info.Selections[fun]; sel != nil && sel.Kind() == types.MethodVal {
		sig := sel.Obj().Type().(*types.Signature)
		var ats []string
		var all []string
		if ns := namedStruct(recvT); ns != nil {
			recv := c.expr(fun.X)
			g = append(recv.g, g...)
			ats = append(ats, c.w.leanType(recvT))
			all = append(all, recv.e)
		}
		outIdx, hasOut := outParamMethods[name]
		var outTy string
		k := -1
		for i := 0; i < sig.Params().Len(); i++ {
			pt := sig.Params().At(i).Type()
			if isIgnoredType(pt) {
				continue
			}
			k++
			if hasOut && k == outIdx {
				// the callee fills this argument: its value is part of the answer, not of the question
				if !c.wbOK {
					panic("method " + name + " (fills an argument) in expression position")
				}
				outTy = c.w.leanType(c.info.TypeOf(x.Args[i]))
				continue
			}
			ats = append(ats, c.w.leanType(pt))
			all = append(all, es[i])
		}
		var rts []string
		for i := 0; i < sig.Results().Len(); i++ {
			rts = append(rts, c.w.leanType(sig.Results().At(i).Type()))
		}
		if outTy != "" {
			rts = append(rts, outTy)
		}
		rt := "Unit"
		if len(rts) > 0 {
			rt = strings.Join(rts, " × ")
		}
		ty := rt
		if len(ats) > 0 {
			ty = strings.Join(ats, " → ") + " → " + rt
		}
		oname := "m_" + name
		o := c.oracle(oname, ty, "method "+sel.Obj().(*types.Func).FullName())
		if len(all) == 0 {
			return val{e: o, g: g}
		}
		return val{e: fmt.Sprintf("(%s %s)", o, strings.Join(all, " ")), g: g}
	}
	panic("unsupported method call " + c.src(x))
}

// ---------------------------------------------------------------- emission

func (w *world) structOrder() []*structInfo {
	// dependency order: a struct after the structs its used fields mention
	var names []string
	for n := range w.structs {
		names = append(names, n)
	}
	sort.Strings(names)
	done := map[string]bool{}
	var out []*structInfo
	var visit func(n string)
	visit = func(n string) {
		if done[n] {
			return
		}
		done[n] = true
		si := w.structs[n]
		st := si.named.Underlying().(*types.Struct)
		for i := 0; i < st.NumFields(); i++ {
			f := st.Field(i)
			if !si.used[f.Name()] {
				continue
			}
			for _, dep := range w.structDeps(f.Type()) {
				visit(dep)
			}
		}
		out = append(out, si)
	}
	for _, n := range names {
		visit(n)
	}
	return out
}

func (w *world) structDeps(t types.Type) []string {
	switch tt := t.(type) {
	case *types.Pointer:
		if isByteHolder(tt) {
			return nil
		}
		return w.structDeps(tt.Elem())
	case *types.Slice:
		return w.structDeps(tt.Elem())
	case *types.Map:
		return append(w.structDeps(tt.Key()), w.structDeps(tt.Elem())...)
	case *types.Named:
		if _, ok := tt.Underlying().(*types.Struct); ok {
			full := tt.Obj().Pkg().Path() + "." + tt.Obj().Name()
			if full == "net/url.URL" || full == "crypto/rsa.PrivateKey" || full == "time.Time" {
				return nil
			}
			return []string{w.structName(tt)}
		}
	}
	return nil
}

func (w *world) structFields(si *structInfo) []*types.Var {
	st := si.named.Underlying().(*types.Struct)
	var out []*types.Var
	for i := 0; i < st.NumFields(); i++ {
		if si.used[st.Field(i).Name()] {
			out = append(out, st.Field(i))
		}
	}
	return out
}

const header = "-- GENERATED by /verif/tools/cmd/go2lean from /repo's working tree. Do not edit.\n"

func (w *world) emitLean() string {
	var sb strings.Builder
	sb.WriteString(header)
	sb.WriteString("import SamlModel.GoSem\nimport SamlModel.ChainSem\nimport SamlModel.Lib.Strings\nimport SamlModel.Lib.Base64\nimport SamlModel.Lib.Stream\n\nopen Go\nset_option linter.unusedVariables false\n\nnamespace Gen\n\n")
	// touch all field types first so that nested structs are registered
	changed := true
	for changed {
		n := len(w.structs)
		for _, si := range w.structOrder() {
			for _, f := range w.structFields(si) {
				func() {
					defer func() { recover() }()
					w.leanType(f.Type())
				}()
			}
		}
		changed = len(w.structs) != n
	}
	sb.WriteString("/-- fixed model of the parts of `net/url.URL` the code reads (answer of the `urlParse` oracle) -/\nstructure UrlRec where\n  Scheme : String := \"\"\n  Host : String := \"\"\n  Fragment : String := \"\"\n  RawQuery : String := \"\"\n  ForceQuery : Bool := false\n  hostname : String := \"\"\n  queryKeys : List String := []\nderiving Repr, DecidableEq, Inhabited\n\n")
	sb.WriteString("/-- fixed model of an RSA private key: only whether it equals the zero value matters -/\nstructure KeyRec where\n  isZero : Bool := false\nderiving Repr, DecidableEq, Inhabited\n\n")
	for _, si := range w.structOrder() {
		fmt.Fprintf(&sb, "/-- slice of Go type %s.%s (fields the translated code touches) -/\nstructure %s where\n", si.named.Obj().Pkg().Path(), si.named.Obj().Name(), si.lean)
		fs := w.structFields(si)
		if len(fs) == 0 {
			sb.WriteString("  unit_ : Unit := ()\n")
		}
		for _, f := range fs {
			fmt.Fprintf(&sb, "  %s : %s := default\n", f.Name(), w.leanType(f.Type()))
		}
		sb.WriteString("deriving Repr, DecidableEq, Inhabited\n\n")
	}
	if len(w.effOrd) > 0 {
		sb.WriteString("/-- what a handler writes to its client, in order (the trace a translated handler returns) -/\ninductive Eff where\n")
		for _, n := range w.effOrd {
			fmt.Fprintf(&sb, "  | %s", n)
			for i, t := range w.effs[n] {
				fmt.Fprintf(&sb, " (a%d : %s)", i, t)
			}
			sb.WriteString("\n")
		}
		sb.WriteString("deriving Repr, DecidableEq, Inhabited\n\n")
	}
	sb.WriteString("/-- everything the translated functions learn from outside (library calls that are not modelled) -/\nstructure Ora where\n")
	if len(w.oraOrd) == 0 {
		sb.WriteString("  unit_ : Unit := ()\n")
	}
	for _, n := range w.oraOrd {
		o := w.oracles[n]
		d := o.dflt
		if d == "" && !legacyOracles[o.name] {
			// every oracle added after the first property files were written gets a default, so that hand-written Ora
			// literals (non-vacuity examples) stay valid when the translated code starts to consult one more library call
			parts := splitTop(o.typ, " → ")
			d = "default"
			if len(parts) > 1 {
				d = "fun" + strings.Repeat(" _", len(parts)-1) + " => default"
			}
		}
		if d != "" {
			fmt.Fprintf(&sb, "  /-- %s -/\n  %s : %s := %s\n", o.doc, o.name, o.typ, d)
		} else {
			fmt.Fprintf(&sb, "  /-- %s -/\n  %s : %s\n", o.doc, o.name, o.typ)
		}
	}
	sb.WriteString("\n")
	var untranslated []string
	for _, spec := range whitelist {
		f := w.funcs[spec.key()]
		if f.failed != "" {
			untranslated = append(untranslated, spec.key())
			fmt.Fprintf(&sb, "-- UNTRANSLATED %s: %s\n\n", spec.key(), strings.ReplaceAll(f.failed, "\n", " "))
			w.notes = append(w.notes, "untranslated "+spec.key()+": "+f.failed)
			continue
		}
		sb.WriteString(f.out)
		sb.WriteString("\n")
	}
	sb.WriteString("def untranslated : List String := [")
	for i, u := range untranslated {
		if i > 0 {
			sb.WriteString(", ")
		}
		sb.WriteString(leanStr(u))
	}
	sb.WriteString("]\n\nend Gen\n")
	return sb.String()
}
