package main

import (
	"bytes"
	"crypto/sha256"
	"encoding/hex"
	"encoding/json"
	"fmt"
	"go/ast"
	"go/printer"
	"go/token"
	"go/types"
	"os"
	"path/filepath"
	"reflect"
	"regexp"
	"sort"
	"strings"

	"golang.org/x/tools/go/packages"
)

// ---- fingerprints

var reErrorf = regexp.MustCompile(`fmt\.Errorf\("(?:[^"\\]|\\.)*"`)
var reLogging = regexp.MustCompile(`logging\.\w+\((?:[^()]|\([^()]*\))*\)`)
var reSpace = regexp.MustCompile(`\s+`)

func normSrc(fset *token.FileSet, n ast.Node) string {
	var buf bytes.Buffer
	_ = printer.Fprint(&buf, fset, n)
	s := buf.String()
	s = reLogging.ReplaceAllString(s, "")
	s = reErrorf.ReplaceAllString(s, `fmt.Errorf(""`)
	s = reSpace.ReplaceAllString(s, " ")
	return strings.TrimSpace(s)
}

func fingerprint(fset *token.FileSet, n ast.Node) string {
	h := sha256.Sum256([]byte(normSrc(fset, n)))
	return hex.EncodeToString(h[:8])
}

// ---- chain skeletons

type stepFact struct {
	Kind  string   `json:"kind"`
	Calls []string `json:"calls"`
	Fail  string   `json:"fail"`
	Hash  string   `json:"hash"`
}

type chainFact struct {
	Func  string     `json:"func"`
	Steps []stepFact `json:"steps"`
	Pre   string     `json:"pre"`  // fingerprint of the statements before the first step
	Post  string     `json:"post"` // fingerprint of the statements from CheckFailed on
}

func findFunc(p *packages.Package, recv, name string) *ast.FuncDecl {
	for _, file := range p.Syntax {
		for _, d := range file.Decls {
			fd, ok := d.(*ast.FuncDecl)
			if !ok || fd.Name.Name != name || fd.Body == nil {
				continue
			}
			r := ""
			if fd.Recv != nil && len(fd.Recv.List) == 1 {
				t := fd.Recv.List[0].Type
				if st, ok := t.(*ast.StarExpr); ok {
					t = st.X
				}
				if id, ok := t.(*ast.Ident); ok {
					r = id.Name
				}
			}
			if r == recv {
				return fd
			}
		}
	}
	return nil
}

// calleeNames lists, in source order, the normalised names of functions called inside n.
func calleeNames(n ast.Node) []string {
	var out []string
	ast.Inspect(n, func(x ast.Node) bool {
		call, ok := x.(*ast.CallExpr)
		if !ok {
			return true
		}
		name := types.ExprString(call.Fun)
		if strings.HasPrefix(name, "logging.") || strings.HasPrefix(name, "fmt.") || strings.HasPrefix(name, "func(") || strings.HasPrefix(name, "func ") {
			return true
		}
		if strings.HasSuffix(name, ".Error") || strings.HasSuffix(name, ".Context") {
			return true
		}
		out = append(out, name)
		return true
	})
	return out
}

// failKind classifies the failure callback of a step.
func failKind(n ast.Node) string {
	kind := ""
	ast.Inspect(n, func(x ast.Node) bool {
		call, ok := x.(*ast.CallExpr)
		if !ok {
			return true
		}
		name := types.ExprString(call.Fun)
		switch {
		case name == "http.Error":
			code := ""
			if len(call.Args) == 3 {
				code = types.ExprString(call.Args[2])
			}
			kind = "http:" + code
			return false
		case strings.HasSuffix(name, ".makeFailedResponse") || strings.HasSuffix(name, ".makeFailedLogoutResponse"):
			if len(call.Args) > 0 {
				pre := "saml:"
				if strings.HasSuffix(name, "LogoutResponse") {
					pre = "logout:"
				}
				kind = pre + types.ExprString(call.Args[0])
			}
			return false
		}
		return true
	})
	return kind
}

func (w *world) chain(recv, name string) *chainFact {
	p := w.pkgs["pkg/provider"]
	if p == nil {
		return nil
	}
	fd := findFunc(p, recv, name)
	if fd == nil {
		return nil
	}
	cf := &chainFact{Func: name}
	var pre, post []ast.Stmt
	seenStep := false
	afterCheck := false
	for _, st := range fd.Body.List {
		isStep := false
		if es, ok := st.(*ast.ExprStmt); ok {
			if call, ok := es.X.(*ast.CallExpr); ok {
				if sel, ok := call.Fun.(*ast.SelectorExpr); ok && types.ExprString(sel.X) == "checkerInstance" && strings.HasPrefix(sel.Sel.Name, "With") {
					isStep = true
					seenStep = true
					sf := stepFact{Kind: sel.Sel.Name, Hash: fingerprint(p.Fset, call)}
					args := call.Args
					// the last argument is the failure callback (except WithValueStep)
					body := args
					if sel.Sel.Name != "WithValueStep" && len(args) > 0 {
						sf.Fail = failKind(args[len(args)-1])
						body = args[:len(args)-1]
					}
					for _, a := range body {
						sf.Calls = append(sf.Calls, calleeNames(a)...)
					}
					if sf.Calls == nil {
						sf.Calls = []string{}
					}
					cf.Steps = append(cf.Steps, sf)
				}
			}
		}
		if isStep && afterCheck {
			// a step added after CheckFailed would never run; record it in the post fingerprint
			post = append(post, st)
			continue
		}
		if isStep {
			continue
		}
		if is, ok := st.(*ast.IfStmt); ok && strings.Contains(types.ExprString(is.Cond), "CheckFailed") {
			afterCheck = true
		}
		if !seenStep {
			pre = append(pre, st)
		} else {
			post = append(post, st)
		}
	}
	cf.Pre = fingerprint(p.Fset, &ast.BlockStmt{List: pre})
	cf.Post = fingerprint(p.Fset, &ast.BlockStmt{List: post})
	return cf
}

// ---- hand-modelled functions whose source is fingerprinted

type fpSpec struct{ pkg, recv, name string }

var fingerprinted = []fpSpec{
	{"pkg/provider", "IdentityProvider", "callbackHandleFunc"},
	{"pkg/provider", "IdentityProvider", "loginResponse"},
	{"pkg/provider", "IdentityProvider", "errorResponse"},
	{"pkg/provider", "Response", "sendBackResponse"},
	{"pkg/provider", "", "createSignature"},
	{"pkg/provider", "", "createPostSignature"},
	{"pkg/provider", "", "createRedirectSignature"},
	{"pkg/provider", "Response", "makeFailedResponse"},
	{"pkg/provider", "Response", "makeSuccessfulResponse"},
	{"pkg/provider", "Response", "makeAssertionResponse"},
	{"pkg/provider", "", "makeAttributeQueryResponse"},
	{"pkg/provider", "", "makeAssertion"},
	{"pkg/provider", "", "makeResponse"},
	{"pkg/provider", "", "getIssuer"},
	{"pkg/provider", "LogoutResponse", "sendBackLogoutResponse"},
	{"pkg/provider", "LogoutResponse", "makeFailedLogoutResponse"},
	{"pkg/provider", "LogoutResponse", "makeSuccessfulLogoutResponse"},
	{"pkg/provider", "", "makeLogoutResponse"},
	{"pkg/provider", "", "getAuthRequestFromRequest"},
	{"pkg/provider", "", "getLogoutRequestFromRequest"},
	{"pkg/provider", "", "verifyPostSignature"},
	{"pkg/provider", "IdentityProvider", "GetMetadata"},
	{"pkg/provider", "IdentityProvider", "GetEntityID"},
	{"pkg/provider", "IdentityProvider", "GetRoutes"},
	{"pkg/provider", "IdentityProvider", "GetServiceProvider"},
	{"pkg/provider", "IdentityProvider", "certificateHandleFunc"},
	{"pkg/provider", "IdentityProviderConfig", "getMetadata"},
	{"pkg/provider", "Config", "getMetadata"},
	{"pkg/provider", "Provider", "GetMetadata"},
	{"pkg/provider", "Provider", "metadataHandle"},
	{"pkg/provider", "", "getMetadataCert"},
	{"pkg/provider", "", "CreateRouter"},
	{"pkg/provider", "", "NewProvider"},
	{"pkg/provider", "", "NewIdentityProvider"},
	{"pkg/provider", "", "endpointConfigToEndpoints"},
	{"pkg/provider", "", "NewID"},
	{"pkg/provider", "", "Readiness"},
	{"pkg/provider", "", "ReadyStorage"},
	{"pkg/provider", "", "issuerFromForwardedOrHost"},
	{"pkg/provider", "", "hostFromForwarded"},
	{"pkg/provider", "", "StaticIssuer"},
	{"pkg/provider", "", "IssuerFromContext"},
	{"pkg/provider", "IssuerInterceptor", "setIssuerCtx"},
	{"pkg/provider", "", "intercept"},
	{"pkg/provider/checker", "Checker", "CheckFailed"},
	{"pkg/provider/checker", "Checker", "addStep"},
	{"pkg/provider/checker", "Checker", "WithValueNotEmptyCheck"},
	{"pkg/provider/checker", "Checker", "WithValuesNotEmptyCheck"},
	{"pkg/provider/checker", "Checker", "WithValueLengthCheck"},
	{"pkg/provider/checker", "Checker", "WithValueEqualsCheck"},
	{"pkg/provider/checker", "Checker", "WithConditionalValueNotEmpty"},
	{"pkg/provider/checker", "Checker", "WithConditionalLogicStep"},
	{"pkg/provider/checker", "Checker", "WithLogicStep"},
	{"pkg/provider/checker", "Checker", "WithValueStep"},
	{"pkg/provider/xml", "", "Marshal"},
	{"pkg/provider/xml", "", "DeflateAndBase64"},
	{"pkg/provider/xml", "", "WriteXMLMarshalled"},
	{"pkg/provider/xml", "", "Write"},
	{"pkg/provider/xml", "", "DecodeAuthNRequest"},
	{"pkg/provider/xml", "", "DecodeAttributeQuery"},
	{"pkg/provider/xml", "", "DecodeLogoutRequest"},
	{"pkg/provider/serviceprovider", "ServiceProvider", "ValidatePostSignature"},
	{"pkg/provider/serviceprovider", "ServiceProvider", "ValidateRedirectSignature"},
	{"pkg/provider/serviceprovider", "", "NewServiceProvider"},
	{"pkg/provider/serviceprovider", "", "getSigningCertsFromMetadata"},
	{"pkg/provider/signature", "", "ValidateRedirect"},
	{"pkg/provider/signature", "", "ValidatePost"},
	{"pkg/provider/signature", "", "verifyDSA"},
	{"pkg/provider/signature", "", "Create"},
	{"pkg/provider/signature", "", "GetSigner"},
	{"pkg/provider/signature", "", "ParseCertificates"},
}

func (w *world) funcHashes() [][2]string {
	var out [][2]string
	for _, s := range fingerprinted {
		p := w.pkgs[s.pkg]
		h := "missing"
		if p != nil {
			if fd := findFunc(p, s.recv, s.name); fd != nil {
				h = fingerprint(p.Fset, fd)
			}
		}
		key := s.name
		if s.recv != "" {
			key = s.recv + "." + s.name
		}
		out = append(out, [2]string{filepath.Base(s.pkg) + "." + key, h})
	}
	return out
}

// ---- constants, templates

func (w *world) constants() [][2]string {
	want := map[string][]string{
		"pkg/provider":     {"StatusCodeSuccess", "StatusCodeVersionMissmatch", "StatusCodeAuthNFailed", "StatusCodeInvalidAttrNameOrValue", "StatusCodeInvalidNameIDPolicy", "StatusCodeRequestDenied", "StatusCodeRequestUnsupported", "StatusCodeUnsupportedBinding", "StatusCodeResponder", "StatusCodePartialLogout", "DefaultTimeFormat", "PostBinding", "RedirectBinding", "DefaultMetadataEndpoint", "DefaultCertificateEndpoint", "DefaultCallbackEndpoint", "DefaultSingleSignOnEndpoint", "DefaultSingleLogOutEndpoint", "DefaultAttributeEndpoint", "healthEndpoint", "readinessEndpoint", "postTemplate", "logoutTemplate"},
		"pkg/provider/xml": {"EncodingDeflate"},
	}
	var out [][2]string
	var pkgsSorted []string
	for k := range want {
		pkgsSorted = append(pkgsSorted, k)
	}
	sort.Strings(pkgsSorted)
	for _, pk := range pkgsSorted {
		p := w.pkgs[pk]
		if p == nil {
			continue
		}
		for _, name := range want[pk] {
			val := "<missing>"
			obj := p.Types.Scope().Lookup(name)
			switch o := obj.(type) {
			case *types.Const:
				_ = json.Unmarshal([]byte(o.Val().ExactString()), &val)
			case *types.Var:
				// literal initialiser
				for _, file := range p.Syntax {
					for _, d := range file.Decls {
						gd, ok := d.(*ast.GenDecl)
						if !ok {
							continue
						}
						for _, sp := range gd.Specs {
							vs, ok := sp.(*ast.ValueSpec)
							if !ok {
								continue
							}
							for i, id := range vs.Names {
								if id.Name == name && i < len(vs.Values) {
									if tv, ok := p.TypesInfo.Types[vs.Values[i]]; ok && tv.Value != nil {
										_ = json.Unmarshal([]byte(tv.Value.ExactString()), &val)
									}
								}
							}
						}
					}
				}
			}
			out = append(out, [2]string{name, val})
		}
	}
	return out
}

// templateSegs splits a template constant at {{ … }} actions: literal segments and hole names.
func templateSegs(t string) (lits []string, holes []string) {
	for {
		i := strings.Index(t, "{{")
		if i < 0 {
			lits = append(lits, t)
			return
		}
		j := strings.Index(t[i:], "}}")
		if j < 0 {
			lits = append(lits, t)
			return
		}
		lits = append(lits, t[:i])
		holes = append(holes, strings.TrimSpace(t[i+2:i+j]))
		t = t[i+j+2:]
	}
}

// templateImport reports the import path of the `template` package used to parse the built-in templates.
func (w *world) templateImport() string {
	p := w.pkgs["pkg/provider"]
	if p == nil {
		return ""
	}
	fd := findFunc(p, "", "NewIdentityProvider")
	if fd == nil {
		return ""
	}
	res := ""
	ast.Inspect(fd, func(n ast.Node) bool {
		sel, ok := n.(*ast.SelectorExpr)
		if !ok {
			return true
		}
		if id, ok := sel.X.(*ast.Ident); ok && sel.Sel.Name == "New" {
			if pn, ok := p.TypesInfo.Uses[id].(*types.PkgName); ok {
				res = pn.Imported().Path()
			}
		}
		return true
	})
	return res
}

// templateDataTypes: the Go types of the fields substituted into the page templates (a `template.HTML`-like type
// would switch the contextual escaper off).
func (w *world) templateDataTypes() [][2]string {
	var out [][2]string
	p := w.pkgs["pkg/provider"]
	if p == nil {
		return out
	}
	for _, name := range []string{"authResponseForm", "LogoutResponseForm"} {
		obj := p.Types.Scope().Lookup(name)
		if obj == nil {
			continue
		}
		st, ok := obj.Type().Underlying().(*types.Struct)
		if !ok {
			continue
		}
		for i := 0; i < st.NumFields(); i++ {
			out = append(out, [2]string{name + "." + st.Field(i).Name(), st.Field(i).Type().String()})
		}
	}
	return out
}

// ---- struct tags

type tagFact struct {
	Type  string `json:"type"`
	Field string `json:"field"`
	Tag   string `json:"tag"`
	Ptr   bool   `json:"ptr"`
	GoTy  string `json:"goty"`
}

func (w *world) structTags() []tagFact {
	var out []tagFact
	for _, pk := range []string{"pkg/provider/xml/samlp", "pkg/provider/xml/saml", "pkg/provider/xml/soap", "pkg/provider/xml/md", "pkg/provider/xml/xml_dsig"} {
		p := w.pkgs[pk]
		if p == nil {
			continue
		}
		names := p.Types.Scope().Names()
		for _, n := range names {
			tn, ok := p.Types.Scope().Lookup(n).(*types.TypeName)
			if !ok {
				continue
			}
			st, ok := tn.Type().Underlying().(*types.Struct)
			if !ok {
				continue
			}
			for i := 0; i < st.NumFields(); i++ {
				f := st.Field(i)
				tag := reflect.StructTag(st.Tag(i)).Get("xml")
				_, ptr := f.Type().(*types.Pointer)
				out = append(out, tagFact{filepath.Base(pk) + "." + n, f.Name(), tag, ptr, types.TypeString(f.Type(), func(p *types.Package) string { return p.Name() })})
			}
		}
	}
	return out
}

// ---- write-sets: assignments through shared receivers / package variables

type writeFact struct {
	Func   string `json:"func"`
	Target string `json:"target"`
	Reach  bool   `json:"handler_reachable"`
}

func (w *world) writeSets() []writeFact {
	p := w.pkgs["pkg/provider"]
	if p == nil {
		return nil
	}
	shared := map[string]bool{"Provider": true, "IdentityProvider": true, "IdentityProviderConfig": true, "Config": true, "Endpoints": true, "MetadataIDPConfig": true, "MetadataConfig": true}
	// static call graph by name inside the package
	calls := map[string]map[string]bool{}
	decls := map[string]*ast.FuncDecl{}
	for _, file := range p.Syntax {
		if strings.HasSuffix(p.Fset.Position(file.Pos()).Filename, "_test.go") {
			continue
		}
		for _, d := range file.Decls {
			fd, ok := d.(*ast.FuncDecl)
			if !ok || fd.Body == nil {
				continue
			}
			name := fd.Name.Name
			decls[name] = fd
			calls[name] = map[string]bool{}
			ast.Inspect(fd, func(n ast.Node) bool {
				switch x := n.(type) {
				case *ast.Ident:
					if obj, ok := p.TypesInfo.Uses[x].(*types.Func); ok && obj.Pkg() == p.Types {
						calls[name][obj.Name()] = true
					}
				}
				return true
			})
		}
	}
	roots := []string{"ssoHandleFunc", "callbackHandleFunc", "logoutHandleFunc", "attributeQueryHandleFunc", "certificateHandleFunc", "metadataHandle", "healthHandler", "readyHandler", "Readiness", "setIssuerCtx", "Handler", "HandlerFunc", "AuthCallbackResponse", "AuthCallbackErrorResponse", "AuthCallbackURL"}
	reach := map[string]bool{}
	var visit func(string)
	visit = func(n string) {
		if reach[n] {
			return
		}
		reach[n] = true
		for c := range calls[n] {
			visit(c)
		}
	}
	for _, r := range roots {
		visit(r)
	}
	var out []writeFact
	var names []string
	for n := range decls {
		names = append(names, n)
	}
	sort.Strings(names)
	for _, name := range names {
		fd := decls[name]
		record := func(lhs ast.Expr) {
			// root identifier of the selector chain
			root := lhs
			depth := 0
			for {
				switch x := root.(type) {
				case *ast.SelectorExpr:
					root = x.X
					depth++
					continue
				case *ast.IndexExpr:
					root = x.X
					depth++
					continue
				case *ast.StarExpr:
					root = x.X
					depth++
					continue
				}
				break
			}
			id, ok := root.(*ast.Ident)
			if !ok {
				return
			}
			obj := p.TypesInfo.Uses[id]
			if obj == nil {
				return
			}
			v, ok := obj.(*types.Var)
			if !ok {
				return
			}
			if v.Parent() == p.Types.Scope() {
				out = append(out, writeFact{name, "global " + types.ExprString(lhs), reach[name]})
				return
			}
			if depth == 0 {
				return
			}
			t := v.Type()
			if pt, ok := t.(*types.Pointer); ok {
				t = pt.Elem()
			} else {
				return // writes through a value copy are local
			}
			if n, ok := t.(*types.Named); ok && shared[n.Obj().Name()] {
				out = append(out, writeFact{name, n.Obj().Name() + ": " + types.ExprString(lhs), reach[name]})
			}
		}
		ast.Inspect(fd, func(n ast.Node) bool {
			switch x := n.(type) {
			case *ast.AssignStmt:
				for _, l := range x.Lhs {
					record(l)
				}
			case *ast.IncDecStmt:
				record(x.X)
			}
			return true
		})
	}
	return out
}

// ---- dependency versions

func depVersions(repo string) [][2]string {
	b, err := os.ReadFile(filepath.Join(repo, "go.mod"))
	if err != nil {
		return nil
	}
	var out [][2]string
	for _, line := range strings.Split(string(b), "\n") {
		f := strings.Fields(line)
		if len(f) >= 2 && strings.Contains(f[0], "/") && strings.HasPrefix(f[1], "v") {
			switch f[0] {
			case "github.com/amdonov/xmlsig", "github.com/russellhaering/goxmldsig", "github.com/beevik/etree", "github.com/google/uuid", "github.com/gorilla/mux", "github.com/muhlemmer/httpforwarded":
				out = append(out, [2]string{f[0], f[1]})
			}
		}
		if len(f) == 2 && f[0] == "go" {
			out = append(out, [2]string{"go", f[1]})
		}
	}
	return out
}

// ---- emission

func leanStrList(xs []string) string {
	var q []string
	for _, x := range xs {
		q = append(q, leanStr(x))
	}
	return "[" + strings.Join(q, ", ") + "]"
}

func leanBytes(s string) string {
	var q []string
	for i := 0; i < len(s); i++ {
		q = append(q, fmt.Sprintf("%d", s[i]))
	}
	return "[" + strings.Join(q, ", ") + "]"
}

var repoRoot = "/repo"

func (w *world) factsJSON() map[string]interface{} {
	m := map[string]interface{}{}
	m["ssoChain"] = w.chain("IdentityProvider", "ssoHandleFunc")
	m["sloChain"] = w.chain("IdentityProvider", "logoutHandleFunc")
	m["aqChain"] = w.chain("IdentityProvider", "attributeQueryHandleFunc")
	m["funcHashes"] = w.funcHashes()
	m["consts"] = w.constants()
	m["tags"] = w.structTags()
	m["writes"] = w.writeSets()
	m["shared"] = w.sharedState()
	m["deps"] = depVersions(repoRoot)
	m["templatePkg"] = w.templateImport()
	return m
}

func (w *world) emitFacts() string {
	var sb strings.Builder
	sb.WriteString(header)
	sb.WriteString("namespace Gen.Facts\n\n")
	sb.WriteString("structure Step where\n  kind : String\n  calls : List String\n  fail : String\n  hash : String\nderiving Repr, DecidableEq\n\n")
	sb.WriteString("structure Chain where\n  steps : List Step\n  pre : String\n  post : String\nderiving Repr, DecidableEq\n\n")
	emitChain := func(name string, c *chainFact) {
		fmt.Fprintf(&sb, "def %s : Chain := {\n  steps := [\n", name)
		if c != nil {
			for i, s := range c.Steps {
				comma := ","
				if i == len(c.Steps)-1 {
					comma = ""
				}
				fmt.Fprintf(&sb, "    { kind := %s, calls := %s, fail := %s, hash := %s }%s\n", leanStr(s.Kind), leanStrList(s.Calls), leanStr(s.Fail), leanStr(s.Hash), comma)
			}
		}
		pre, post := "missing", "missing"
		if c != nil {
			pre, post = c.Pre, c.Post
		}
		fmt.Fprintf(&sb, "  ],\n  pre := %s,\n  post := %s }\n\n", leanStr(pre), leanStr(post))
	}
	emitChain("ssoChain", w.chain("IdentityProvider", "ssoHandleFunc"))
	emitChain("sloChain", w.chain("IdentityProvider", "logoutHandleFunc"))
	emitChain("aqChain", w.chain("IdentityProvider", "attributeQueryHandleFunc"))
	sb.WriteString("/-- fingerprints (normalised source hashes) of functions that are modelled by hand -/\ndef funcHashes : List (String × String) := [\n")
	fh := w.funcHashes()
	for i, kv := range fh {
		comma := ","
		if i == len(fh)-1 {
			comma = ""
		}
		fmt.Fprintf(&sb, "  (%s, %s)%s\n", leanStr(kv[0]), leanStr(kv[1]), comma)
	}
	sb.WriteString("]\n\n")
	sb.WriteString("def consts : List (String × String) := [\n")
	cs := w.constants()
	var post, logout string
	first := true
	for _, kv := range cs {
		if kv[0] == "postTemplate" {
			post = kv[1]
			continue
		}
		if kv[0] == "logoutTemplate" {
			logout = kv[1]
			continue
		}
		if !first {
			sb.WriteString(",\n")
		}
		first = false
		fmt.Fprintf(&sb, "  (%s, %s)", leanStr(kv[0]), leanStr(kv[1]))
	}
	sb.WriteString("\n]\n\n")
	emitTmpl := func(name, t string) {
		lits, holes := templateSegs(t)
		for i, l := range lits {
			fmt.Fprintf(&sb, "def %sLit%d : List UInt8 := %s\n", name, i, leanBytes(l))
		}
		var ls []string
		for i := range lits {
			ls = append(ls, fmt.Sprintf("%sLit%d", name, i))
		}
		fmt.Fprintf(&sb, "def %sLits : List (List UInt8) := [%s]\n", name, strings.Join(ls, ", "))
		fmt.Fprintf(&sb, "def %sHoles : List String := %s\n\n", name, leanStrList(holes))
	}
	emitTmpl("postTemplate", post)
	emitTmpl("logoutTemplate", logout)
	fmt.Fprintf(&sb, "def templatePkg : String := %s\n\n", leanStr(w.templateImport()))
	sb.WriteString("def templateDataTypes : List (String × String) := [")
	for i, kv := range w.templateDataTypes() {
		if i > 0 {
			sb.WriteString(", ")
		}
		fmt.Fprintf(&sb, "(%s, %s)", leanStr(kv[0]), leanStr(kv[1]))
	}
	sb.WriteString("]\n\n")
	sb.WriteString("def deps : List (String × String) := [")
	for i, kv := range depVersions(repoRoot) {
		if i > 0 {
			sb.WriteString(", ")
		}
		fmt.Fprintf(&sb, "(%s, %s)", leanStr(kv[0]), leanStr(kv[1]))
	}
	sb.WriteString("]\n\n")
	// tags
	sb.WriteString("structure Tag where\n  type : String\n  field : String\n  tag : String\n  ptr : Bool\nderiving Repr, DecidableEq\n\n")
	sb.WriteString("def tags : List Tag := [\n")
	tags := w.structTags()
	for i, t := range tags {
		comma := ","
		if i == len(tags)-1 {
			comma = ""
		}
		b := "false"
		if t.Ptr {
			b = "true"
		}
		fmt.Fprintf(&sb, "  ⟨%s, %s, %s, %s⟩%s\n", leanStr(t.Type), leanStr(t.Field), leanStr(t.Tag), b, comma)
	}
	sb.WriteString("]\n\n")
	// writes
	sb.WriteString("/-- assignments through shared receivers / to package variables: (function, target, reachable from a route handler) -/\ndef writes : List (String × String × Bool) := [\n")
	ws := w.writeSets()
	for i, x := range ws {
		comma := ","
		if i == len(ws)-1 {
			comma = ""
		}
		b := "false"
		if x.Reach {
			b = "true"
		}
		fmt.Fprintf(&sb, "  (%s, %s, %s)%s\n", leanStr(x.Func), leanStr(x.Target), b, comma)
	}
	sb.WriteString("]\n\n")
	w.emitSharedFacts(&sb)
	sb.WriteString("end Gen.Facts\n")
	return sb.String()
}
