#!/usr/bin/env python3
"""run_seeded.py — apply one seeded change to /repo, run checks, undo.

  tools/run_seeded.py <dir with patch.diff + meta.json> [--confirm] [--props C01,C02 | --all] [--tier quick]

--confirm : first confirm the change in a scratch worktree: the existing test suite passes with it, the
            demonstration fails with it and passes without it.
The patch is applied with `git -C /repo apply`, and always undone with `git -C /repo checkout -- .` (+ removal of
files the patch added).  Nothing is ever committed to /repo.  Results go to <dir>/result.json.
"""
import json
import os
import shutil
import subprocess
import sys
import time

ROOT = os.path.dirname(os.path.dirname(os.path.abspath(__file__)))
REPO = os.environ.get("VERIF_REPO", "/repo")


def sh(cmd, cwd=None, env=None, timeout=3600):
    p = subprocess.run(cmd, cwd=cwd, env=env, shell=isinstance(cmd, str), stdout=subprocess.PIPE, stderr=subprocess.STDOUT, text=True, timeout=timeout)
    return p.returncode, p.stdout


def goenv():
    e = dict(os.environ)
    e["GOFLAGS"] = "-mod=mod"
    e["GOPROXY"] = "off"
    e.pop("GOSUMDB", None)
    e.pop("GOTOOLCHAIN", None)
    return e


def added_files(patch):
    out = []
    lines = open(patch).read().splitlines()
    for i, l in enumerate(lines):
        if l.startswith("--- /dev/null") and i + 1 < len(lines) and lines[i + 1].startswith("+++ b/"):
            out.append(lines[i + 1][6:])
    return out


def confirm(d, meta):
    wt = os.path.join(os.environ.get("VERIF_SCRATCH", "/tmp/wt"), "confirm-%d" % os.getpid())
    res = {}
    sh(["git", "-C", REPO, "worktree", "add", "--detach", wt, "HEAD"])
    try:
        demo_src = None
        for cand in ("demo_test.go", "demo.go"):
            if os.path.exists(os.path.join(d, cand)):
                demo_src = os.path.join(d, cand)
        demo_path = meta.get("demo_path")
        pkg = None
        if demo_src and demo_path:
            dst = os.path.join(wt, demo_path)
            os.makedirs(os.path.dirname(dst), exist_ok=True)
            shutil.copy(demo_src, dst)
            pkg = "./" + os.path.dirname(demo_path)
            rc, out = sh(["go", "test", "-vet=off", "-count=1", pkg], cwd=wt, env=goenv())
            res["demo_clean_rc"] = rc
            res["demo_clean_tail"] = out[-600:]
            os.remove(dst)
        rc, out = sh(["git", "apply", os.path.join(d, "patch.diff")], cwd=wt)
        res["applies"] = rc == 0
        if rc != 0:
            res["apply_output"] = out[-500:]
            return res
        rc, out = sh(["go", "build", "./..."], cwd=wt, env=goenv())
        res["builds"] = rc == 0
        rc, out = sh(["go", "test", "-vet=off", "-count=1", "./..."], cwd=wt, env=goenv())
        res["suite_passes"] = rc == 0
        if rc != 0:
            res["suite_tail"] = out[-1500:]
        if demo_src and demo_path:
            dst = os.path.join(wt, demo_path)
            shutil.copy(demo_src, dst)
            rc, out = sh(["go", "test", "-vet=off", "-count=1", pkg], cwd=wt, env=goenv())
            res["demo_changed_rc"] = rc
            res["demo_changed_tail"] = out[-900:]
        res["confirmed"] = bool(res.get("suite_passes") and res.get("demo_clean_rc") == 0 and res.get("demo_changed_rc", 0) != 0)
    finally:
        sh(["git", "-C", REPO, "worktree", "remove", "--force", wt])
        shutil.rmtree(wt, ignore_errors=True)
    return res


def main():
    args = sys.argv[1:]
    d = os.path.abspath(args[0])
    meta = {}
    if os.path.exists(os.path.join(d, "meta.json")):
        meta = json.load(open(os.path.join(d, "meta.json")))
    props = [meta.get("property")] if meta.get("property") else []
    tier = "quick"
    do_confirm = False
    i = 1
    while i < len(args):
        if args[i] == "--props":
            props = args[i + 1].split(",")
            i += 2
        elif args[i] == "--all":
            man = json.load(open(os.path.join(ROOT, "MANIFEST.json")))
            props = [c["property_id"] for c in man["checks"]]
            i += 1
        elif args[i] == "--tier":
            tier = args[i + 1]
            i += 2
        elif args[i] == "--confirm":
            do_confirm = True
            i += 1
        else:
            i += 1
    result = {"dir": d, "meta": meta, "checks": {}}
    if do_confirm:
        result["confirm"] = confirm(d, meta)
        print("confirm:", json.dumps({k: v for k, v in result["confirm"].items() if not k.endswith("tail")}))
    rc, out = sh(["git", "-C", REPO, "status", "--porcelain"])
    if out.strip():
        print("refusing: /repo is not clean:\n" + out)
        sys.exit(2)
    patch = os.path.join(d, "patch.diff")
    rc, out = sh(["git", "-C", REPO, "apply", patch])
    if rc != 0:
        print("patch does not apply:", out)
        sys.exit(2)
    try:
        for p in props:
            t0 = time.time()
            rc, out = sh(["./check", p, "--tier", tier], cwd=ROOT)
            lines = [l for l in out.splitlines() if l.startswith("VIOLATION") or l.startswith("KNOWN-FINDING")]
            summary = [l for l in out.splitlines() if l.startswith(p + " tier=")]
            replays = []
            for l in lines:
                if l.startswith("VIOLATION") and "replay=" in l:
                    rp = l.split("replay=")[1].split()[0]
                    try:
                        r = json.load(open(rp))
                        replays.append({"file": rp, "what": r.get("what") or r.get("broken"), "site": r.get("site"), "class": r.get("class"), "no_input": l.rstrip().endswith("no-failing-input-found")})
                    except Exception:
                        replays.append({"file": rp})
            result["checks"][p] = {"exit": rc, "violations": [l[:300] for l in lines if l.startswith("VIOLATION")], "summary": summary, "replays": replays, "wall_s": round(time.time() - t0, 1)}
            print(p, "exit", rc, summary[-1] if summary else "", "| violations:", len([l for l in lines if l.startswith("VIOLATION")]))
            for r in replays[:4]:
                print("    ", json.dumps(r)[:400])
    finally:
        sh(["git", "-C", REPO, "checkout", "--", "."])
        for f in added_files(patch):
            try:
                os.remove(os.path.join(REPO, f))
            except OSError:
                pass
        rc, out = sh(["git", "-C", REPO, "status", "--porcelain"])
        if out.strip():
            print("WARNING: /repo not clean after undo:\n" + out)
        # the evidence files now describe runs against the changed tree: put the committed ones (unchanged tree) back
        for p in props:
            sh(["git", "-C", ROOT, "checkout", "--", "evidence/%s.json" % p])
    json.dump(result, open(os.path.join(d, "result.json"), "w"), indent=1)


if __name__ == "__main__":
    main()
